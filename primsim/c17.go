package primsim

import (
	"fmt"
	"sort"
	"testing"
	"time"

	"verif/sim"

	"github.com/anishathalye/porcupine"
	"github.com/brewlin/net-protocol/pkg/waiter"
)

// C17: readiness notifications reach exactly the registered, interested waiters.
//
// Each task owns one or two entries (an entry may be in one queue at a time, so
// only its owner registers and unregisters it); every task may notify. Harness
// callbacks record (entry, notify, stamp) and are themselves schedule points.
type c17 struct{}

func init() { props["C17"] = c17{} }

const c17MaxEntries = 8

func (c17) Gen(rng *sim.Rand, tier string) *Case {
	nt := rng.Range(2, 4)
	maxOps := 5
	if tier == "thorough" {
		nt = rng.Range(2, 5)
		maxOps = 8
	}
	c := &Case{Params: map[string]int{"tasks": nt}}
	if rng.Chance(0.3) {
		c.Params["pct"] = rng.Range(1, 4)
	}
	// entries: task i owns entries 2i and (sometimes) 2i+1; bit k of "chan"
	// says entry k is channel-backed.
	chanMask := 0
	for e := 0; e < 2*nt && e < c17MaxEntries; e++ {
		if rng.Chance(0.3) {
			chanMask |= 1 << uint(e)
		}
	}
	c.Params["chan"] = chanMask
	// some channel-backed entries use a caller-supplied unbuffered channel: a
	// notification then reaches the waiter only if it is parked on the channel
	uchan := 0
	for e := 0; e < c17MaxEntries; e++ {
		if chanMask&(1<<uint(e)) != 0 && rng.Chance(0.3) {
			uchan |= 1 << uint(e)
		}
	}
	c.Params["uchan"] = uchan
	// half of the channel-backed entries keep the library's own callback object (whatever the
	// queue does when it recognises one happens to them); the others get a recording wrapper
	c.Params["rawchan"] = rng.Intn(1 << c17MaxEntries)
	for i := 0; i < nt; i++ {
		var s []Op
		reg := [2]bool{}
		for k := rng.Range(2, maxOps); k > 0; k-- {
			e := rng.Intn(2)
			if 2*i+e >= c17MaxEntries {
				e = 0
			}
			pick := rng.Pick(4, 4, 1, 1)
			if 2*i+e >= c17MaxEntries {
				// no entry left for this task to own (an entry must never be handled by two
				// tasks at once - that would be a misuse of the queue, not a test of it): it only notifies
				pick = 1 + rng.Intn(2)
			}
			switch pick {
			case 0:
				if reg[e] {
					s = append(s, Op{K: "unreg", A: 2*i + e})
				} else {
					s = append(s, Op{K: "reg", A: 2*i + e, B: c17Mask(rng)})
				}
				reg[e] = !reg[e]
			case 1:
				s = append(s, Op{K: "notify", B: c17Mask(rng)})
			case 2:
				s = append(s, Op{K: "events"})
			case 3:
				s = append(s, Op{K: "take", A: 2*i + e})
			}
		}
		if uchan&(1<<uint(2*i)) != 0 && rng.Chance(0.7) {
			// the owner parks on its unbuffered channel as its last action
			if !reg[0] {
				s = append(s, Op{K: "reg", A: 2 * i, B: c17Mask(rng)})
			}
			s = append(s, Op{K: "wait", A: 2 * i})
		}
		c.Scripts = append(c.Scripts, s)
	}
	return c
}

// c17Mask draws an event mask over the six low bits (In, Pri, Out, Err, HUp and
// one undefined bit), mostly small ones.
func c17Mask(rng *sim.Rand) int {
	if rng.Chance(0.6) {
		return rng.Range(1, 7)
	}
	return rng.Range(1, 63)
}

type c17In struct {
	Kind  string
	Entry int
	Mask  uint8
}
type c17State [c17MaxEntries]uint8

// c17Raw marks the entries of the current run that keep the library's own channel callback:
// their calls cannot be recorded, so the model leaves them out of a notify's output.
var c17Raw int

var c17Model = porcupine.Model{
	Init: func() interface{} { return c17State{} },
	Step: func(state, input, output interface{}) (bool, interface{}) {
		st := state.(c17State)
		in := input.(c17In)
		switch in.Kind {
		case "reg":
			st[in.Entry] = in.Mask
			return true, st
		case "unreg":
			st[in.Entry] = 0
			return true, st
		case "notify":
			want := ""
			for e, m := range st {
				if m&in.Mask != 0 && c17Raw&(1<<uint(e)) == 0 {
					want += fmt.Sprintf("%d,", e)
				}
			}
			return output.(string) == want, st
		case "events":
			u := uint8(0)
			for _, m := range st {
				u |= m
			}
			return output.(uint8) == u, st
		}
		return false, st
	},
	Equal: func(a, b interface{}) bool { return a.(c17State) == b.(c17State) },
	DescribeOperation: func(input, output interface{}) string {
		return fmt.Sprintf("%+v -> %v", input, output)
	},
}

type c17cb struct{ f func(e *waiter.Entry) }

func (c *c17cb) Callback(e *waiter.Entry) { c.f(e) }

func (c17) Exec(t *testing.T, c *Case, replay []int) *Outcome {
	o := &Outcome{Probes: map[string]int64{}}
	fail := func(class, detail string) {
		if o.Class == "" {
			o.Class, o.Detail = class, detail
		}
	}
	var ops []porcupine.Operation
	bubble(t, func() {
		s := NewSched(sim.NewRand(sim.Mix(c.Seed ^ 0x17)))
		s.Debug = debugOn
		s.Replay = replay
		s.Depth = c.Params["pct"]
		s.Install()
		defer Uninstall()
		var q waiter.Queue
		nt := len(c.Scripts)
		ne := 2 * nt
		if ne > c17MaxEntries {
			ne = c17MaxEntries
		}
		type regRec struct {
			mask       uint8
			inv, ret   int64 // registration
			uinv, uret int64 // unregistration (0 = not yet)
		}
		type cbRec struct {
			entry  int
			notify int
			stamp  int64
		}
		type notRec struct {
			mask     uint8
			inv, ret int64
			called   []int
		}
		c17Raw = c.Params["rawchan"] & c.Params["chan"]
		entries := make([]waiter.Entry, ne)
		chans := make([]chan struct{}, ne)
		regs := make([][]*regRec, ne)
		var nots []*notRec
		var cbs []cbRec
		curNotify := make([]int, nt) // per task: index into nots, -1 when not notifying
		for i := range curNotify {
			curNotify[i] = -1
		}
		takes := make([][]ival, ne) // successful takes per channel entry
		type waitRec struct {
			e, task  int
			inv, ret int64
		}
		var waits []*waitRec
		hist := sim.NewHash()
		for e := 0; e < ne; e++ {
			e := e
			record := func() {
				tk := s.Cur()
				n := -1
				if tk >= 0 {
					n = curNotify[tk]
				}
				st := s.Stamp()
				cbs = append(cbs, cbRec{e, n, st})
				if n >= 0 {
					nots[n].called = append(nots[n].called, e)
				} else {
					fail("callback-outside-notify", fmt.Sprintf("entry %d called back by a task that is not inside Notify", e))
				}
			}
			if c.Params["chan"]&(1<<uint(e)) != 0 {
				var given chan struct{}
				if c.Params["uchan"]&(1<<uint(e)) != 0 {
					given = make(chan struct{})
				}
				ce, ch := waiter.NewChannelEntry(given)
				inner := ce.Callback
				entries[e] = ce
				chans[e] = ch
				if c17Raw&(1<<uint(e)) != 0 {
					continue
				}
				// wrap: record, then run the shipped channel callback
				entries[e].Callback = &c17cb{func(en *waiter.Entry) {
					record()
					s.Yield("cb.before")
					inner.Callback(en)
				}}
			} else {
				entries[e].Callback = &c17cb{func(en *waiter.Entry) {
					record()
					s.Yield("cb")
				}}
			}
		}
		for ti := range c.Scripts {
			script := c.Scripts[ti]
			s.Go(func(id int) {
				for _, op := range script {
					e := op.A
					if e >= ne {
						e = e % ne
					}
					switch op.K {
					case "reg":
						if n := len(regs[e]); n > 0 && regs[e][n-1].uret == 0 {
							continue // still registered (script was shrunk): skip
						}
						r := &regRec{mask: uint8(op.B), inv: s.Stamp()}
						regs[e] = append(regs[e], r)
						q.EventRegister(&entries[e], waiter.EventMask(op.B))
						r.ret = s.Stamp()
						ops = append(ops, porcupine.Operation{ClientId: id, Input: c17In{"reg", e, uint8(op.B)}, Call: r.inv, Output: nil, Return: r.ret})
					case "unreg":
						n := len(regs[e])
						if n == 0 || regs[e][n-1].uinv != 0 {
							continue // not registered: skip
						}
						r := regs[e][n-1]
						r.uinv = s.Stamp()
						q.EventUnregister(&entries[e])
						r.uret = s.Stamp()
						ops = append(ops, porcupine.Operation{ClientId: id, Input: c17In{"unreg", e, 0}, Call: r.uinv, Output: nil, Return: r.uret})
					case "notify":
						nr := &notRec{mask: uint8(op.B), inv: s.Stamp()}
						nots = append(nots, nr)
						curNotify[id] = len(nots) - 1
						q.Notify(waiter.EventMask(op.B))
						curNotify[id] = -1
						nr.ret = s.Stamp()
						called := append([]int(nil), nr.called...)
						sort.Ints(called)
						out := ""
						for _, x := range called {
							out += fmt.Sprintf("%d,", x)
						}
						hist.Str(out)
						ops = append(ops, porcupine.Operation{ClientId: id, Input: c17In{"notify", 0, uint8(op.B)}, Call: nr.inv, Output: out, Return: nr.ret})
					case "events":
						inv := s.Stamp()
						m := q.Events()
						ret := s.Stamp()
						hist.Byte(byte(m))
						ops = append(ops, porcupine.Operation{ClientId: id, Input: c17In{"events", 0, 0}, Call: inv, Output: uint8(m), Return: ret})
					case "wait":
						if chans[e] == nil || c.Params["uchan"]&(1<<uint(e)) == 0 {
							continue
						}
						wr := &waitRec{e: e, task: id, inv: s.Stamp()}
						waits = append(waits, wr)
						<-chans[e] // really blocks: only a notification (or the harness at the end) releases it
						wr.ret = s.Stamp()
					case "take":
						if chans[e] == nil {
							continue
						}
						iv := ival{inv: s.Stamp()}
						s.Yield("take")
						select {
						case <-chans[e]:
							iv.ret = s.Stamp()
							takes[e] = append(takes[e], iv)
							hist.Byte(byte(0x80 | e))
						default:
						}
					}
				}
			})
		}
		blocked := s.Run(nil)
		if s.Panic != "" {
			fail("panic", s.Panic)
		}
		if s.Stuck {
			fail("stuck", fmt.Sprintf("step budget %d exhausted with runnable tasks left (a lock is never released)", s.MaxSteps))
		}
		for _, id := range blocked {
			var wr *waitRec
			for _, x := range waits {
				if x.task == id && x.ret == 0 {
					wr = x
				}
			}
			if wr == nil {
				fail("blocked", fmt.Sprintf("task %d is blocked inside a wait-queue operation", id))
				continue
			}
			// parked on its unbuffered channel: legitimate unless a notification that had to reach it came by
			for ni, n := range nots {
				if n.ret == 0 || n.inv < wr.inv {
					continue
				}
				for _, r := range regs[wr.e] {
					if r.mask&n.mask != 0 && r.ret != 0 && r.ret < n.inv && (r.uinv == 0 || r.uinv > n.ret) {
						fail("lost-token", fmt.Sprintf("entry %d (unbuffered channel): its waiter has been parked on the channel since stamp %d, notify #%d (mask %d, stamps %d-%d) had to reach it, yet the waiter still sleeps", wr.e, wr.inv, ni, n.mask, n.inv, n.ret))
					}
				}
			}
			o.Probes["waiter_parked_on_unbuffered_channel"]++
		}
		// ---- interval oracle ----
		active := func(r *regRec, from, to int64) bool { // possibly registered at some instant of [from,to]
			return r.inv < to && (r.uret == 0 || r.uret > from)
		}
		for ni, n := range nots {
			if n.ret == 0 {
				continue
			}
			count := map[int]int{}
			for _, e := range n.called {
				count[e]++
			}
			for e := 0; e < ne; e++ {
				if c17Raw&(1<<uint(e)) != 0 {
					continue // judged by its tokens below
				}
				must, may := false, false
				for _, r := range regs[e] {
					if r.mask&n.mask == 0 {
						continue
					}
					if r.ret != 0 && r.ret < n.inv && (r.uinv == 0 || r.uinv > n.ret) {
						must = true
					}
					if active(r, n.inv, n.ret) {
						may = true
					}
				}
				switch {
				case count[e] > 1:
					fail("duplicate-callback", fmt.Sprintf("notify #%d (mask %d) called entry %d %d times", ni, n.mask, e, count[e]))
				case must && count[e] == 0:
					fail("missed-callback", fmt.Sprintf("notify #%d (mask %d, stamps %d-%d) did not call entry %d although it was registered with an intersecting mask throughout", ni, n.mask, n.inv, n.ret, e))
				case !may && count[e] > 0:
					fail("spurious-callback", fmt.Sprintf("notify #%d (mask %d, stamps %d-%d) called entry %d which had no registration with an intersecting mask at any instant of the call", ni, n.mask, n.inv, n.ret, e))
				}
			}
		}
		for _, cb := range cbs {
			ok := false
			for _, r := range regs[cb.entry] {
				if r.inv < cb.stamp && (r.uret == 0 || r.uret > cb.stamp) {
					ok = true
				}
			}
			if !ok {
				fail("callback-after-unregister", fmt.Sprintf("entry %d got a callback at stamp %d, after its unregistration had returned", cb.entry, cb.stamp))
			}
		}
		// ---- channel entries: a notification is never lost ----
		for e := 0; e < ne; e++ {
			if chans[e] == nil || c.Params["uchan"]&(1<<uint(e)) != 0 {
				continue // (an unbuffered channel keeps nothing: judged through its parked waiter above)
			}
			var lastMust *notRec
			nmay := 0
			for _, n := range nots {
				must, may := false, false
				for _, r := range regs[e] {
					if r.mask&n.mask == 0 {
						continue
					}
					if n.ret != 0 && r.ret != 0 && r.ret < n.inv && (r.uinv == 0 || r.uinv > n.ret) {
						must = true
					}
					if active(r, n.inv, n.ret) || n.ret == 0 {
						may = true
					}
				}
				if may {
					nmay++
				}
				if must && (lastMust == nil || n.ret > lastMust.ret) {
					lastMust = n
				}
			}
			if len(takes[e]) > nmay {
				fail("invented-token", fmt.Sprintf("channel entry %d yielded %d tokens but at most %d notifications can have reached it", e, len(takes[e]), nmay))
			}
			if lastMust != nil {
				o.Probes["channel_entry_notified"]++
				takenAfter := false
				for _, tk := range takes[e] {
					if tk.ret > lastMust.inv {
						takenAfter = true
					}
				}
				if !takenAfter && len(chans[e]) == 0 {
					fail("lost-token", fmt.Sprintf("channel entry %d: notify at stamps %d-%d had to reach it, no take followed, yet the channel is empty", e, lastMust.inv, lastMust.ret))
				}
			}
		}
		s.Abandon()
		h := s.ILHash
		h.U64(uint64(hist))
		o.Hash = uint64(h)
		o.Steps, o.Switches, o.Schedule, o.Sites = s.Steps, s.Switches, s.Chosen, s.SiteHits
		held := int64(0)
		for k, v := range s.SiteHits {
			if len(k) > 5 && k[len(k)-5:] == ".held" {
				held += v
			}
		}
		if held > 0 {
			o.Probes["lock_contended"]++
		}
		o.Nontrivial = len(cbs) > 0 && s.Switches >= 3
	})
	// ---- cross-check: the history is linearizable against a set-of-(entry,mask) model ----
	if o.Class == "" && len(ops) > 0 && len(ops) <= 60 {
		switch porcupine.CheckOperationsTimeout(c17Model, ops, 20*time.Second) {
		case porcupine.Illegal:
			o.Class, o.Detail = "not-linearizable", fmt.Sprintf("history of %d operations is not linearizable against the sequential set-of-(entry,mask) model", len(ops))
		case porcupine.Unknown:
			o.Inconcl = true
		}
	}
	return o
}

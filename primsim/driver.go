package primsim

import (
	"encoding/json"
	"fmt"
	"io"
	"log"
	"os"
	"path/filepath"
	"strings"
	"testing"
	"testing/synctest"

	"verif/sim"
)

// Op is one scripted operation of a task.
type Op struct {
	K string `json:"k"`
	A int    `json:"a,omitempty"`
	B int    `json:"b,omitempty"`
	C int    `json:"c,omitempty"`
	D int    `json:"d,omitempty"`
}

// Case is a generated scenario plus, in replay files, the schedule and verdict.
type Case struct {
	Property string         `json:"property"`
	Seed     uint64         `json:"seed"`
	Params   map[string]int `json:"params"`
	Scripts  [][]Op         `json:"scripts"`
	Schedule []int          `json:"schedule,omitempty"`
	Class    string         `json:"class,omitempty"`
	Detail   string         `json:"detail,omitempty"`
	LogHash  string         `json:"loghash,omitempty"`
}

// Outcome of executing one case under one schedule.
type Outcome struct {
	Class      string // "" = property held
	Detail     string
	Hash       uint64 // interleaving + observable-history hash
	Steps      int
	Switches   int
	Nontrivial bool
	Schedule   []int
	Sites      map[string]int64
	Probes     map[string]int64
	Inconcl    bool
}

// Prop is what each property of this engine implements.
type Prop interface {
	Gen(rng *sim.Rand, tier string) *Case
	// Exec runs c in a fresh bubble. sched.Replay is set by the driver when
	// replaying; Exec creates tasks, runs the scheduler and evaluates oracles.
	Exec(t *testing.T, c *Case, replay []int) *Outcome
}

var props = map[string]Prop{}

// debugOn prints every scheduling step (diagnosis of a single replay only).
var debugOn = os.Getenv("VERIF_DEBUG") != ""

// bubble runs f in a synctest bubble and recovers the end-of-bubble deadlock
// panic (tasks left blocked inside the code under test after a violation).
func bubble(t *testing.T, f func()) (deadlock bool) {
	defer func() {
		if r := recover(); r != nil {
			if strings.Contains(fmt.Sprint(r), "deadlock") {
				deadlock = true
				return
			}
			panic(r)
		}
	}()
	synctest.Test(t, func(t *testing.T) { f() })
	return false
}

func (c *Case) clone() *Case {
	b, _ := json.Marshal(c)
	var d Case
	json.Unmarshal(b, &d)
	return &d
}

type flatOp struct{ task, idx int }

// minimise shrinks scripts, then the schedule, keeping the violation class.
func minimise(t *testing.T, p Prop, c *Case, out *Outcome) (*Case, *Outcome) {
	best := c.clone()
	best.Schedule = out.Schedule
	bestOut := out
	test := func(cand *Case) (*Outcome, bool) {
		o := p.Exec(t, cand, cand.Schedule)
		return o, o.Class == out.Class
	}
	// 1. drop operations
	var flat []flatOp
	for ti, s := range best.Scripts {
		for i := range s {
			flat = append(flat, flatOp{ti, i})
		}
	}
	build := func(keep []flatOp) *Case {
		cand := best.clone()
		for ti := range cand.Scripts {
			cand.Scripts[ti] = nil
		}
		for _, f := range keep {
			cand.Scripts[f.task] = append(cand.Scripts[f.task], best.Scripts[f.task][f.idx])
		}
		return cand
	}
	kept := sim.Minimize(flat, 300, func(keep []flatOp) bool {
		_, ok := test(build(keep))
		return ok
	})
	cand := build(kept)
	if o, ok := test(cand); ok {
		best, bestOut = cand, o
		best.Schedule = o.Schedule
	}
	// 2. shrink the schedule (missing entries default to the lowest runnable task)
	sched := sim.Minimize(best.Schedule, 300, func(s []int) bool {
		cand := best.clone()
		cand.Schedule = s
		if len(s) == 0 {
			cand.Schedule = []int{}
		}
		_, ok := test(cand)
		return ok
	})
	cand = best.clone()
	cand.Schedule = sched
	if cand.Schedule == nil {
		cand.Schedule = []int{}
	}
	if o, ok := test(cand); ok {
		best, bestOut = cand, o
		// keep the requested schedule (not the taken one) so the file stays small
	}
	return best, bestOut
}

func writeReplay(dir string, c *Case, o *Outcome) (string, error) {
	c.Class, c.Detail, c.LogHash = o.Class, o.Detail, fmt.Sprintf("%016x", o.Hash)
	os.MkdirAll(dir, 0o755)
	path := filepath.Join(dir, fmt.Sprintf("%s-%d.json", c.Property, c.Seed))
	b, _ := json.MarshalIndent(c, "", " ")
	return path, os.WriteFile(path, b, 0o644)
}

// Worker is the body of TestWorker.
func Worker(t *testing.T) {
	env := sim.LoadEnv()
	p := props[env.Prop]
	if p == nil {
		t.Fatalf("primsim: unknown property %q", env.Prop)
	}
	sim.PinProcess()
	sim.SeedRuntime(1)
	log.SetOutput(io.Discard)
	res := sim.NewResult(env.Prop)
	defer func() {
		res.WallS = env.Elapsed()
		if env.Out != "" {
			if err := res.Write(env.Out); err != nil {
				t.Fatalf("write result: %v", err)
			}
		}
	}()
	if env.Mode == "replay" {
		b, err := os.ReadFile(env.Replay)
		if err != nil {
			t.Fatalf("replay: %v", err)
		}
		var c Case
		if err := json.Unmarshal(b, &c); err != nil {
			t.Fatalf("replay: %v", err)
		}
		var kind struct {
			Kind string `json:"kind"`
			Tier string `json:"tier"`
		}
		json.Unmarshal(b, &kind)
		if kind.Kind == "seed" {
			// a crash or hang that took the worker down: the replay is the seed itself
			g := p.Gen(sim.NewRand(sim.Mix(c.Seed)), kind.Tier)
			g.Property, g.Seed = env.Prop, c.Seed
			o := p.Exec(t, g, nil)
			res.Runs = 1
			if o.Class != "" {
				res.Violations = append(res.Violations, sim.Violation{Class: o.Class, Detail: o.Detail, Seed: c.Seed, Replay: env.Replay, LogHash: fmt.Sprintf("%016x", o.Hash)})
			}
			return
		}
		sched := c.Schedule
		if sched == nil {
			sched = []int{}
		}
		o := p.Exec(t, &c, sched)
		res.Runs = 1
		res.Steps = int64(o.Steps)
		if o.Class != "" {
			res.Violations = append(res.Violations, sim.Violation{Class: o.Class, Detail: o.Detail, Seed: c.Seed, Replay: env.Replay, LogHash: fmt.Sprintf("%016x", o.Hash)})
		}
		res.Notes = append(res.Notes, fmt.Sprintf("replay expected class=%q loghash=%s", c.Class, c.LogHash))
		return
	}
	seen := map[uint64]bool{}
	for i := 0; env.More(i); i++ {
		seed := env.Seed0 + uint64(i)
		env.Mark(seed)
		rng := sim.NewRand(sim.Mix(seed))
		c := p.Gen(rng, env.Tier)
		if os.Getenv("VERIF_DUMPCASE") != "" {
			b, _ := json.Marshal(c)
			fmt.Fprintf(os.Stderr, "case %d: %s\n", seed, b)
		}
		c.Property, c.Seed = env.Prop, seed
		o := p.Exec(t, c, nil)
		res.Runs++
		res.Steps += int64(o.Steps)
		for k, v := range o.Sites {
			res.Yields[k] += v
		}
		for k, v := range o.Probes {
			res.Probes[k] += v
		}
		if o.Inconcl {
			res.Inconclusive++
		}
		if o.Nontrivial {
			res.Nontrivial++
			if !seen[o.Hash] {
				seen[o.Hash] = true
				res.Hashes = append(res.Hashes, o.Hash)
			}
			if len(res.Samples) < 2 || (len(res.Samples) < 3 && i > 20) {
				sc := c.clone()
				sc.Schedule = o.Schedule
				if len(sc.Schedule) > 60 {
					sc.Schedule = sc.Schedule[:60]
				}
				res.AddSample(sc)
			}
		}
		if o.Class != "" {
			mc, mo := minimise(t, p, c, o)
			path, err := writeReplay(env.Dir, mc, mo)
			if err != nil {
				t.Fatalf("write replay: %v", err)
			}
			res.Violations = append(res.Violations, sim.Violation{Class: mo.Class, Detail: mo.Detail, Seed: seed, Replay: path, LogHash: fmt.Sprintf("%016x", mo.Hash)})
			if len(res.Violations) >= 5 {
				break
			}
		}
		if i%256 == 255 {
			sim.BetweenRuns()
		}
	}
}

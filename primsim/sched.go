// Package primsim is the controlled scheduler for the synchronisation
// primitives and small shared-state packages (DESIGN.md 3.3). Each simulated
// task is a real goroutine inside a synctest bubble; it parks on a private
// channel at every verif schedule point, and the scheduler – the only
// goroutine that ever chooses – releases exactly one task per step, picked
// from the run's PRNG or from a recorded schedule.
package primsim

import (
	"fmt"
	"os"
	"runtime"
	"strings"
	"sync"
	"testing/synctest"

	"verif/sim"

	"github.com/brewlin/net-protocol/pkg/verifhook"
)

type task struct {
	id      int
	wake    chan struct{}
	atYield bool
	site    string
	done    bool
	prio    int // PCT priority
}

// Sched drives one schedule.
type Sched struct {
	rng      *sim.Rand
	tasks    []*task
	byGoid   map[uint64]*task
	Steps    int
	MaxSteps int
	// Chosen is the schedule actually taken: task id per step.
	Chosen []int
	// Replay, when non-nil, is consumed instead of the PRNG: the listed task
	// runs if it is runnable, otherwise (or when the list is exhausted) the
	// lowest-numbered runnable task does.
	Replay []int
	rpos   int
	// PCT: when Depth > 0 priorities decide and change at the given steps.
	Depth   int
	changes map[int]bool
	// Interleaving hash over (task, site) pairs and context switches.
	ILHash   sim.Hash
	Switches int
	last     int
	stamp    int64
	SiteHits map[string]int64
	Stuck    bool // step budget exhausted with runnable tasks left
	Debug    bool
	Panic    string // first panic raised by a task, with the /repo frame it came from
	// Finer-grain filter: which sites are live this run (nil = all).
	Live func(site string) bool
}

func NewSched(rng *sim.Rand) *Sched {
	return &Sched{rng: rng, byGoid: map[uint64]*task{}, MaxSteps: 4000, ILHash: sim.NewHash(), last: -1, SiteHits: map[string]int64{}}
}

// Stamp returns the next global event sequence number.
func (s *Sched) Stamp() int64 { s.stamp++; return s.stamp }

// Go starts fn as simulated task number len(tasks). Must be called from the
// scheduler goroutine inside the bubble before Run.
func (s *Sched) Go(fn func(id int)) int {
	t := &task{id: len(s.tasks), wake: make(chan struct{})}
	s.tasks = append(s.tasks, t)
	ready := make(chan struct{})
	go func() {
		s.byGoid[sim.Goid()] = t
		close(ready)
		defer func() {
			// A panic in the code under test ends the task, not the worker:
			// it becomes a violation with a minimised, replayable schedule.
			if r := recover(); r != nil {
				if s.Panic == "" {
					s.Panic = fmt.Sprintf("task %d panicked: %v%s", t.id, r, repoFrame())
				}
				t.done = true
			}
		}()
		s.yield("task.start")
		fn(t.id)
		t.done = true
	}()
	<-ready
	return t.id
}

// Cur returns the id of the calling task, or -1.
func (s *Sched) Cur() int {
	if t := s.byGoid[sim.Goid()]; t != nil {
		return t.id
	}
	return -1
}

func (s *Sched) yield(site string) {
	t := s.byGoid[sim.Goid()]
	if t == nil {
		return
	}
	if s.Live != nil && !s.Live(site) {
		return
	}
	t.site = site
	t.atYield = true
	<-t.wake
	t.atYield = false
}

// Yield is an explicit schedule point for harness code (e.g. inside a
// critical section or a callback).
func (s *Sched) Yield(site string) { s.yield(site) }

// repoFrame names the innermost frame of /repo on the panicking stack.
func repoFrame() string {
	pc := make([]uintptr, 40)
	n := runtime.Callers(3, pc)
	fr := runtime.CallersFrames(pc[:n])
	for {
		f, more := fr.Next()
		if strings.HasPrefix(f.File, "/repo/") {
			return fmt.Sprintf(" at %s (%s:%d)", f.Function, strings.TrimPrefix(f.File, "/repo/"), f.Line)
		}
		if !more {
			return ""
		}
	}
}

func tryLock(l interface{}, write bool) bool {
	switch m := l.(type) {
	case *sync.RWMutex:
		if write {
			if m.TryLock() {
				m.Unlock()
				return true
			}
			return false
		}
		if m.TryRLock() {
			m.RUnlock()
			return true
		}
		return false
	case *sync.Mutex:
		if m.TryLock() {
			m.Unlock()
			return true
		}
		return false
	}
	panic(fmt.Sprintf("primsim: unknown lock type %T", l))
}

// beforeLock makes sure the real lock acquisition that follows cannot block:
// it offers a schedule point, then parks the task again for as long as the
// lock is held in a conflicting mode. It only probes the lock.
func (s *Sched) beforeLock(l interface{}, write bool, site string) {
	if s.byGoid[sim.Goid()] == nil {
		return
	}
	s.yield(site)
	for !tryLock(l, write) {
		// Not subject to the Live filter: the task must not run into a
		// held lock.
		t := s.byGoid[sim.Goid()]
		t.site = site + ".held"
		t.atYield = true
		<-t.wake
		t.atYield = false
	}
}

// Install points the repository's hooks at this scheduler.
func (s *Sched) Install() {
	verifhook.Yield = s.yield
	verifhook.BeforeLock = s.beforeLock
}

// Uninstall clears the hooks.
func Uninstall() {
	verifhook.Yield = nil
	verifhook.BeforeLock = nil
	verifhook.Choose = nil
}

// Run schedules until no task is at a schedule point. It returns the tasks
// that have neither finished nor reached a schedule point, i.e. that are
// blocked inside the code under test.
func (s *Sched) Run(afterStep func()) (blocked []int) {
	if s.Depth > 0 {
		s.changes = map[int]bool{}
		for i := 0; i < s.Depth-1; i++ {
			s.changes[s.rng.Intn(200)] = true
		}
		perm := make([]int, len(s.tasks))
		for i := range perm {
			perm[i] = i
		}
		for i := len(perm) - 1; i > 0; i-- {
			j := s.rng.Intn(i + 1)
			perm[i], perm[j] = perm[j], perm[i]
		}
		for i, t := range s.tasks {
			t.prio = perm[i] + s.Depth
		}
	}
	var runnable []*task
	for {
		synctest.Wait()
		if afterStep != nil {
			afterStep()
		}
		runnable = runnable[:0]
		for _, t := range s.tasks {
			if t.atYield && !t.done {
				runnable = append(runnable, t)
			}
		}
		if len(runnable) == 0 {
			break
		}
		if s.Steps >= s.MaxSteps {
			s.Stuck = true
			break
		}
		var pick *task
		if s.Replay != nil {
			if s.rpos < len(s.Replay) {
				want := s.Replay[s.rpos]
				s.rpos++
				for _, t := range runnable {
					if t.id == want {
						pick = t
					}
				}
			}
			if pick == nil {
				pick = runnable[0]
			}
		} else if s.Depth > 0 && s.Steps < 600 {
			pick = runnable[0]
			for _, t := range runnable {
				if t.prio > pick.prio {
					pick = t
				}
			}
			if s.changes[s.Steps] {
				pick.prio = s.Depth - 1 - len(s.changes)
				delete(s.changes, s.Steps)
			}
		} else {
			pick = runnable[s.rng.Intn(len(runnable))]
		}
		s.Steps++
		s.Chosen = append(s.Chosen, pick.id)
		s.ILHash.Byte(byte(pick.id))
		s.ILHash.Str(pick.site)
		s.SiteHits[pick.site]++
		if pick.id != s.last {
			if s.last >= 0 {
				s.Switches++
			}
			s.last = pick.id
		}
		if s.Debug {
			fmt.Fprintf(os.Stderr, "step %d: task %d at %s (stamp %d)\n", s.Steps, pick.id, pick.site, s.stamp)
		}
		pick.wake <- struct{}{}
	}
	for _, t := range s.tasks {
		if !t.done && !t.atYield {
			blocked = append(blocked, t.id)
		}
	}
	return blocked
}

// BlockedNow lists, from inside Run's afterStep callback (every goroutine of the
// bubble is then parked), the tasks that are neither finished nor at a schedule
// point: they sleep inside the code under test at this very step.
func (s *Sched) BlockedNow() (ids []int) {
	for _, t := range s.tasks {
		if !t.done && !t.atYield {
			ids = append(ids, t.id)
		}
	}
	return ids
}

// Abandon releases every parked task so that the bubble can end; tasks
// blocked inside the code under test are left to the caller (it must unblock
// them or accept the bubble's deadlock panic, which RunBubble recovers).
func (s *Sched) Abandon() {
	s.Live = func(string) bool { return false }
	for i := 0; i < 100000; i++ {
		synctest.Wait()
		n := 0
		for _, t := range s.tasks {
			if t.atYield && !t.done {
				n++
				t.wake <- struct{}{}
				break
			}
		}
		if n == 0 {
			return
		}
	}
}

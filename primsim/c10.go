package primsim

import (
	"fmt"
	"sort"
	"testing"
	"time"

	"verif/sim"

	"github.com/anishathalye/porcupine"
	"github.com/brewlin/net-protocol/pkg/verifhook"
	tcpip "github.com/brewlin/net-protocol/protocol"
	"github.com/brewlin/net-protocol/protocol/ports"
)

// C10: port reservations are exclusive and ephemeral ports are found when free.
//
// Part 1 (schedules, histories): 2-4 tasks reserve (specific and ephemeral),
// release and query one PortManager; the recorded history must be linearizable
// against a sequential set-of-reservations model with the statement's conflict
// rule. Part 2 (inputs): PickEphemeralPort with predicates that accept one or
// two ports anywhere in the range and the search's starting offset supplied by
// the simulator through the ephemeral-offset seam.
type c10 struct{}

func init() { props["C10"] = c10{} }

var (
	c10Nets  = [][]tcpip.NetworkProtocolNumber{{0x0800}, {0x86dd}, {0x0800, 0x86dd}}
	c10Trans = []tcpip.TransportProtocolNumber{6, 17}
	c10Addrs = []tcpip.Address{"", "\x0a\x00\x00\x01", "\x0a\x00\x00\x02"}
	c10Ports = []uint16{80, 16000, 40000, 65535}
	c10First = 16000
	c10Count = 65536 - 16000
)

func (c10) Gen(rng *sim.Rand, tier string) *Case {
	nt := rng.Range(2, 4)
	maxOps := 5
	nprobe := rng.Range(2, 6)
	if tier == "thorough" {
		maxOps = 9
		nprobe = rng.Range(4, 12)
	}
	c := &Case{Params: map[string]int{"tasks": nt}}
	if rng.Chance(0.3) {
		c.Params["pct"] = rng.Range(1, 4)
	}
	// a third of the cases concentrate on one (network, transport, port): every operation names it, only the
	// address varies, so that one port goes through long histories (several holders, released in any order,
	// ephemeral requests in between) instead of many ports through short ones
	hot := rng.Chance(0.35)
	hotNet, hotTr, hotPort := rng.Intn(len(c10Nets)), rng.Intn(len(c10Trans)), 1+rng.Intn(len(c10Ports)-1)
	if hot {
		c.Params["one_port"] = 1
	}
	for i := 0; i < nt; i++ {
		var s []Op
		for k := rng.Range(2, maxOps); k > 0; k-- {
			op := Op{A: rng.Intn(len(c10Nets)), B: rng.Intn(len(c10Trans)), C: rng.Intn(len(c10Addrs)), D: rng.Intn(len(c10Ports))}
			if hot {
				op.A, op.B, op.D = hotNet, hotTr, hotPort
			}
			switch rng.Pick(5, 3, 2, 1) {
			case 0:
				op.K = "reserve"
			case 1:
				op.K = "release"
			case 2:
				op.K = "avail"
			case 3:
				op.K = "ephemeral" // ReservePort with port 0; D = index into offsets
				op.D = pickOffset(rng)
			}
			s = append(s, op)
		}
		c.Scripts = append(c.Scripts, s)
	}
	// Part 2: script number nt is the probe list (run sequentially afterwards).
	var probes []Op
	for i := 0; i < nprobe; i++ {
		p1 := pickPort(rng)
		p2 := -1
		if rng.Chance(0.3) {
			p2 = pickPort(rng)
		}
		if rng.Chance(0.05) {
			p1, p2 = -1, -1 // nothing acceptable: must fail
		}
		probes = append(probes, Op{K: "probe", A: pickOffset(rng), B: p1, C: p2})
	}
	c.Scripts = append(c.Scripts, probes)
	return c
}

func pickOffset(rng *sim.Rand) int {
	switch rng.Pick(4, 4, 2) {
	case 0:
		b := []int{0, 1, 15999, 16000, 16001, 16002, 32768, 49534, 49535, 24768, 33536, 33535}
		return b[rng.Intn(len(b))]
	case 1:
		return rng.Intn(c10Count)
	default:
		return 16001 + rng.Intn(c10Count-16001) // offsets whose search crosses 65536
	}
}

func pickPort(rng *sim.Rand) int {
	switch rng.Pick(3, 5) {
	case 0:
		b := []int{16000, 16001, 16042, 20000, 32767, 32768, 40000, 49535, 49536, 60000, 65534, 65535}
		return b[rng.Intn(len(b))]
	default:
		return c10First + rng.Intn(c10Count)
	}
}

type c10Res struct {
	net  uint16
	tr   uint8
	port uint16
	addr uint8
}
type c10In struct {
	Kind string
	Nets int
	Tr   int
	Addr int
	Port uint16 // 0 for ephemeral
}
type c10Out struct {
	OK   bool
	Port uint16
}

func c10Encode(rs []c10Res) string {
	sort.Slice(rs, func(i, j int) bool {
		a, b := rs[i], rs[j]
		if a.net != b.net {
			return a.net < b.net
		}
		if a.tr != b.tr {
			return a.tr < b.tr
		}
		if a.port != b.port {
			return a.port < b.port
		}
		return a.addr < b.addr
	})
	b := make([]byte, 0, 6*len(rs))
	for _, r := range rs {
		b = append(b, byte(r.net>>8), byte(r.net), r.tr, byte(r.port>>8), byte(r.port), r.addr)
	}
	return string(b)
}

func c10Decode(s string) []c10Res {
	var rs []c10Res
	for i := 0; i+6 <= len(s); i += 6 {
		rs = append(rs, c10Res{uint16(s[i])<<8 | uint16(s[i+1]), s[i+2], uint16(s[i+3])<<8 | uint16(s[i+4]), s[i+5]})
	}
	return rs
}

// conflict is the statement's rule: same protocol and port where either is
// for the wildcard address (index 0) or both are for the same address.
func c10Conflict(rs []c10Res, in c10In, port uint16) bool {
	for _, n := range c10Nets[in.Nets] {
		for _, r := range rs {
			if r.net == uint16(n) && r.tr == uint8(c10Trans[in.Tr]) && r.port == port {
				if r.addr == 0 || in.Addr == 0 || int(r.addr) == in.Addr {
					return true
				}
			}
		}
	}
	return false
}

var c10Model = porcupine.Model{
	Init: func() interface{} { return "" },
	Step: func(state, input, output interface{}) (bool, interface{}) {
		rs := c10Decode(state.(string))
		in := input.(c10In)
		out := output.(c10Out)
		insert := func(port uint16) string {
			for _, n := range c10Nets[in.Nets] {
				rs = append(rs, c10Res{uint16(n), uint8(c10Trans[in.Tr]), port, uint8(in.Addr)})
			}
			return c10Encode(rs)
		}
		switch in.Kind {
		case "reserve":
			if c10Conflict(rs, in, in.Port) {
				return !out.OK, state
			}
			if !out.OK || out.Port != in.Port {
				return false, state
			}
			return true, insert(in.Port)
		case "ephemeral":
			// May fail only if no port of the range is acceptable, which a
			// history of a few operations can never bring about.
			if !out.OK {
				return false, state
			}
			if int(out.Port) < c10First || c10Conflict(rs, in, out.Port) {
				return false, state
			}
			return true, insert(out.Port)
		case "release":
			var keep []c10Res
			for _, r := range rs {
				drop := false
				for _, n := range c10Nets[in.Nets] {
					if r.net == uint16(n) && r.tr == uint8(c10Trans[in.Tr]) && r.port == in.Port && int(r.addr) == in.Addr {
						drop = true
					}
				}
				if !drop {
					keep = append(keep, r)
				}
			}
			return true, c10Encode(keep)
		case "avail":
			return out.OK == !c10Conflict(rs, in, in.Port), state
		}
		return false, state
	},
	Equal:             func(a, b interface{}) bool { return a.(string) == b.(string) },
	DescribeOperation: func(input, output interface{}) string { return fmt.Sprintf("%+v -> %+v", input, output) },
}

func (c10) Exec(t *testing.T, c *Case, replay []int) *Outcome {
	o := &Outcome{Probes: map[string]int64{}}
	fail := func(class, detail string) {
		if o.Class == "" {
			o.Class, o.Detail = class, detail
		}
	}
	var ops []porcupine.Operation
	nt := c.Params["tasks"]
	if nt > len(c.Scripts) {
		nt = len(c.Scripts)
	}
	bubble(t, func() {
		s := NewSched(sim.NewRand(sim.Mix(c.Seed ^ 0x10)))
		s.Debug = debugOn
		s.Replay = replay
		s.Depth = c.Params["pct"]
		s.Install()
		defer Uninstall()
		pm := ports.NewPortManager()
		nextOffset := make([]int, nt+1)
		verifhook.Choose = func(site string, n uint32) (uint32, bool) {
			if site != "ports.ephemeral.offset" {
				return 0, false
			}
			id := s.Cur()
			if id < 0 {
				id = nt
			}
			return uint32(nextOffset[id]) % n, true
		}
		hist := sim.NewHash()
		for ti := 0; ti < nt; ti++ {
			script := c.Scripts[ti]
			s.Go(func(id int) {
				for _, op := range script {
					in := c10In{Kind: op.K, Nets: op.A % len(c10Nets), Tr: op.B % len(c10Trans), Addr: op.C % len(c10Addrs)}
					nets, tr, addr := c10Nets[in.Nets], c10Trans[in.Tr], c10Addrs[in.Addr]
					inv := s.Stamp()
					var out c10Out
					switch op.K {
					case "reserve":
						in.Port = c10Ports[op.D%len(c10Ports)]
						p, err := pm.ReservePort(nets, tr, addr, in.Port)
						out = c10Out{err == nil, p}
						if err != nil && err != tcpip.ErrPortInUse {
							fail("unexpected-error", fmt.Sprintf("ReservePort(%d) failed with %v", in.Port, err))
						}
					case "ephemeral":
						nextOffset[id] = op.D
						p, err := pm.ReservePort(nets, tr, addr, 0)
						out = c10Out{err == nil, p}
						o.Probes["ephemeral_reserve"]++
					case "release":
						in.Port = c10Ports[op.D%len(c10Ports)]
						pm.ReleasePort(nets, tr, addr, in.Port)
						out = c10Out{true, 0}
					case "avail":
						in.Port = c10Ports[op.D%len(c10Ports)]
						out = c10Out{pm.IsPortAvailable(nets, tr, addr, in.Port), 0}
					default:
						continue
					}
					ret := s.Stamp()
					hist.Str(fmt.Sprintf("%v%v", in, out))
					ops = append(ops, porcupine.Operation{ClientId: id, Input: in, Call: inv, Output: out, Return: ret})
				}
			})
		}
		blocked := s.Run(nil)
		if s.Panic != "" {
			fail("panic", s.Panic)
		}
		if s.Stuck {
			fail("stuck", fmt.Sprintf("step budget %d exhausted with runnable tasks left (a lock is never released)", s.MaxSteps))
		}
		for _, id := range blocked {
			fail("blocked", fmt.Sprintf("task %d is blocked inside a port manager operation", id))
		}
		s.Abandon()
		// ---- Part 2: the ephemeral search itself ----
		if len(c.Scripts) > nt {
			for _, op := range c.Scripts[nt] {
				if op.K != "probe" {
					continue
				}
				nextOffset[nt] = op.A
				calls := 0
				p, err := pm.PickEphemeralPort(func(p uint16) (bool, *tcpip.Error) {
					calls++
					return int(p) == op.B || int(p) == op.C, nil
				})
				o.Probes["ephemeral_probe"]++
				if op.A%c10Count >= 16001 {
					o.Probes["probe_offset_crosses_65536"]++
				}
				hist.Str(fmt.Sprintf("probe%v->%d,%v", op, p, err))
				acceptable := op.B >= c10First && op.B <= 65535 || op.C >= c10First && op.C <= 65535
				switch {
				case err == nil && (int(p) < c10First || (int(p) != op.B && int(p) != op.C)):
					fail("ephemeral-wrong-port", fmt.Sprintf("PickEphemeralPort(offset %d) returned port %d, which the tester had not accepted (accepts %d,%d)", op.A, p, op.B, op.C))
				case err != nil && acceptable:
					fail("ephemeral-missed-free-port", fmt.Sprintf("PickEphemeralPort with starting offset %d failed (%v after %d probes) although port %d is acceptable", op.A%c10Count, err, calls, op.B))
				case err != nil && err != tcpip.ErrNoPortAvailable:
					fail("unexpected-error", fmt.Sprintf("PickEphemeralPort failed with %v", err))
				}
			}
		}
		h := s.ILHash
		h.U64(uint64(hist))
		o.Hash = uint64(h)
		o.Steps, o.Switches, o.Schedule, o.Sites = s.Steps, s.Switches, s.Chosen, s.SiteHits
		held := int64(0)
		for k, v := range s.SiteHits {
			if len(k) > 5 && k[len(k)-5:] == ".held" {
				held += v
			}
		}
		if held > 0 {
			o.Probes["lock_contended"]++
		}
		o.Nontrivial = held > 0 || o.Probes["probe_offset_crosses_65536"] > 0
	})
	if o.Class == "" && len(ops) > 0 && len(ops) <= 60 {
		switch porcupine.CheckOperationsTimeout(c10Model, ops, 20*time.Second) {
		case porcupine.Illegal:
			o.Class, o.Detail = "not-linearizable", fmt.Sprintf("history of %d reserve/release/availability operations is not linearizable against the sequential reservation-set model (two conflicting reservations both held, a release touched another entry, or an availability answer was wrong)", len(ops))
		case porcupine.Unknown:
			o.Inconcl = true
		}
	}
	return o
}

package primsim

import (
	"fmt"
	"testing"

	"verif/sim"

	"github.com/brewlin/net-protocol/pkg/tmutex"
)

// C18: the try-lock mutex gives mutual exclusion and never loses a wake-up.
type c18 struct{}

func init() { props["C18"] = c18{} }

func (c18) Gen(rng *sim.Rand, tier string) *Case {
	n := rng.Range(2, 4)
	maxOps := 4
	if tier == "thorough" {
		maxOps = 7
	}
	c := &Case{Params: map[string]int{"tasks": n}}
	// PCT depth 0 = uniform random choice.
	if rng.Chance(0.4) {
		c.Params["pct"] = rng.Range(1, 4)
	}
	for i := 0; i < n; i++ {
		var s []Op
		for k := rng.Range(1, maxOps); k > 0; k-- {
			if rng.Chance(0.4) {
				s = append(s, Op{K: "try", A: rng.Intn(3)})
			} else {
				s = append(s, Op{K: "lock", A: rng.Intn(3)})
			}
		}
		c.Scripts = append(c.Scripts, s)
	}
	return c
}

func (c18) Exec(t *testing.T, c *Case, replay []int) *Outcome {
	o := &Outcome{}
	fail := func(class, detail string) {
		if o.Class == "" {
			o.Class, o.Detail = class, detail
		}
	}
	bubble(t, func() {
		s := NewSched(sim.NewRand(sim.Mix(c.Seed ^ 0x18)))
		s.Replay = replay
		s.Depth = c.Params["pct"]
		s.Install()
		defer Uninstall()
		var m tmutex.Mutex
		m.Init()
		hist := sim.NewHash()
		occupancy := 0 // tasks inside the critical section
		held := 0      // tasks between a successful acquire and the return of their Unlock
		inflight := 0  // tasks between invoke and return of any mutex operation
		n := len(c.Scripts)
		curOp := make([]string, n)
		type tryState struct {
			active, eligible bool
		}
		tries := make([]tryState, n)
		disturb := func(self int) {
			for i := range tries {
				if i != self && tries[i].active {
					tries[i].eligible = false
				}
			}
		}
		enter := func(id int, how string) {
			if occupancy != 0 {
				fail("two-holders", fmt.Sprintf("task %d acquired by %s while %d task(s) hold the mutex", id, how, occupancy))
			}
			occupancy++
			held++
		}
		cs := func(id, yields int) {
			for i := 0; i < yields; i++ {
				s.Yield("cs")
				if occupancy != 1 {
					fail("two-holders", fmt.Sprintf("task %d in critical section sees occupancy %d", id, occupancy))
				}
			}
			occupancy--
			curOp[id] = "unlock"
			inflight++
			disturb(id)
			m.Unlock()
			inflight--
			held--
			curOp[id] = ""
		}
		for ti := range c.Scripts {
			script := c.Scripts[ti]
			s.Go(func(id int) {
				for _, op := range script {
					switch op.K {
					case "lock":
						curOp[id] = "lock"
						inflight++
						disturb(id)
						hist.Byte(byte(0x10 | id))
						m.Lock()
						inflight--
						curOp[id] = ""
						hist.Byte(byte(0x20 | id))
						enter(id, "Lock")
						cs(id, op.A)
					case "try":
						curOp[id] = "trylock"
						tries[id] = tryState{active: true, eligible: held == 0 && inflight == 0}
						inflight++
						disturb(id)
						ok := m.TryLock()
						inflight--
						curOp[id] = ""
						st := tries[id]
						tries[id] = tryState{}
						hist.Byte(byte(0x30 | id))
						if ok {
							hist.Byte(1)
							enter(id, "TryLock")
							cs(id, op.A)
						} else if st.eligible {
							fail("trylock-spurious-failure", fmt.Sprintf("task %d: TryLock returned false although the mutex was free and no other operation was in progress during the call", id))
						}
					}
				}
			})
		}
		// "TryLock never blocks", at every step: whenever the whole bubble is parked, no
		// task may be asleep inside TryLock (or Unlock) - even if a later Unlock would wake it
		blocked := s.Run(func() {
			for _, id := range s.BlockedNow() {
				switch curOp[id] {
				case "trylock":
					fail("trylock-blocked", fmt.Sprintf("task %d went to sleep inside TryLock (woken or not later on, TryLock must not wait)", id))
				case "unlock":
					fail("unlock-blocked", fmt.Sprintf("task %d went to sleep inside Unlock", id))
				}
			}
		})
		if s.Panic != "" {
			fail("panic", s.Panic)
		}
		if s.Stuck {
			fail("stuck", fmt.Sprintf("step budget %d exhausted with runnable tasks left", s.MaxSteps))
		}
		for _, id := range blocked {
			switch curOp[id] {
			case "trylock":
				fail("trylock-blocked", fmt.Sprintf("task %d is blocked inside TryLock", id))
			case "unlock":
				fail("unlock-blocked", fmt.Sprintf("task %d is blocked inside Unlock", id))
			case "lock":
				if held == 0 && !s.Stuck {
					fail("lost-wakeup", fmt.Sprintf("task %d sleeps in Lock while the mutex is free and nobody is running", id))
				}
			default:
				fail("blocked", fmt.Sprintf("task %d blocked outside any mutex operation", id))
			}
		}
		s.Abandon()
		h := s.ILHash
		h.U64(uint64(hist))
		o.Hash = uint64(h)
		o.Steps, o.Switches, o.Schedule, o.Sites = s.Steps, s.Switches, s.Chosen, s.SiteHits
		o.Nontrivial = s.SiteHits["tmutex.Lock.loadswap"] > 0
		o.Probes = map[string]int64{}
		if s.SiteHits["tmutex.Lock.recv"] > 0 {
			o.Probes["lock_slow_path_sleep"] = 1
		}
		if s.SiteHits["tmutex.Unlock.send"] > 0 {
			o.Probes["unlock_found_waiters"] = 1
		}
	})
	return o
}

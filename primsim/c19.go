package primsim

import (
	"bytes"
	"fmt"
	"testing"
	"unsafe"

	"verif/sim"

	"github.com/brewlin/net-protocol/pkg/sleep"
)

// C19: Sleeper/Waker never lose or invent a wake-up.
//
// Task 0 is the only goroutine that touches the Sleeper (AddWaker, Fetch,
// Done); tasks 1..k assert and clear wakers. Every operation is recorded as an
// interval of global event stamps; the oracles are interval forms of the
// statement, so an operation that overlaps another is never held to one order.
type c19 struct{}

func init() { props["C19"] = c19{} }

const termID = 9999

func (c19) Gen(rng *sim.Rand, tier string) *Case {
	nw := rng.Range(1, 4)
	na := rng.Range(1, 4)
	maxA, maxF := 5, 6
	if tier == "thorough" {
		nw, na = rng.Range(1, 8), rng.Range(1, 8)
		maxA, maxF = 8, 10
	}
	c := &Case{Params: map[string]int{"wakers": nw}}
	if rng.Chance(0.4) {
		c.Params["pct"] = rng.Range(1, 4)
	}
	var f []Op
	for k := rng.Range(1, maxF); k > 0; k-- {
		switch rng.Pick(6, 3, 1) {
		case 0:
			f = append(f, Op{K: "fetch", A: 1})
		case 1:
			f = append(f, Op{K: "fetch", A: 0})
		case 2:
			f = append(f, Op{K: "done"})
		}
	}
	c.Scripts = append(c.Scripts, f)
	for i := 0; i < na; i++ {
		var s []Op
		for k := rng.Range(1, maxA); k > 0; k-- {
			if rng.Chance(0.75) {
				s = append(s, Op{K: "assert", A: rng.Intn(nw)})
			} else {
				s = append(s, Op{K: "clear", A: rng.Intn(nw)})
			}
		}
		c.Scripts = append(c.Scripts, s)
	}
	return c
}

type ival struct {
	inv, ret int64 // ret == 0: not returned yet
	ok       bool
}

func (c19) Exec(t *testing.T, c *Case, replay []int) *Outcome {
	o := &Outcome{Probes: map[string]int64{}}
	fail := func(class, detail string) {
		if o.Class == "" {
			o.Class, o.Detail = class, detail
		}
	}
	bubble(t, func() {
		s := NewSched(sim.NewRand(sim.Mix(c.Seed ^ 0x19)))
		s.Debug = debugOn
		s.Replay = replay
		s.Depth = c.Params["pct"]
		s.Install()
		defer Uninstall()
		nw := c.Params["wakers"]
		if nw < 1 {
			nw = 1
		}
		wakers := make([]sleep.Waker, nw)
		var term sleep.Waker
		asserts := make([][]*ival, nw)  // per waker
		consumes := make([][]*ival, nw) // Fetch returns of the id and Clears that returned true
		attached := make([]int64, nw)   // stamp at which the waker's current attachment returned (0 = not attached)
		hist := sim.NewHash()
		slp := new(sleep.Sleeper)
		type deadSleeper struct {
			p    *sleep.Sleeper
			snap []byte
		}
		var dead []deadSleeper
		raw := func(p *sleep.Sleeper) []byte {
			return append([]byte(nil), unsafe.Slice((*byte)(unsafe.Pointer(p)), unsafe.Sizeof(*p))...)
		}
		fetchState := "" // "", "block", "nonblock", "done", "add"
		var fetchInv int64
		stopped := false

		// unconsumed reports whether waker i has an assertion that completed
		// before stamp `before`, started after the waker's current
		// attachment, and that no consuming operation overlapping or
		// following it (and invoked before `until`) can have taken.
		unconsumed := func(i int, before, until int64) *ival {
			if attached[i] == 0 {
				return nil
			}
			for _, a := range asserts[i] {
				// (an assertion made before the waker's current attachment counts as well: a waker stays
				// asserted across Done and AddWaker, and the sleeper it is attached to next hears of it)
				if a.ret == 0 || a.ret >= before {
					continue
				}
				taken := false
				for _, k := range consumes[i] {
					if (k.ret == 0 || k.ret > a.inv) && k.inv < until {
						taken = true
						break
					}
				}
				if !taken {
					return a
				}
			}
			return nil
		}
		onReturn := func(id int, inv int64) {
			r := s.Stamp()
			if id == termID {
				stopped = true
				return
			}
			if id < 0 || id >= nw {
				fail("invented-id", fmt.Sprintf("Fetch returned id %d which no waker carries", id))
				return
			}
			hist.Byte(byte(0x40 | id))
			// previous consumption of this id
			// previous completed consumption of this id (an operation still
			// in progress has not consumed anything yet as far as this
			// return is concerned)
			var prevInv int64
			nret := 0
			for _, k := range consumes[id] {
				if k.ret == 0 {
					continue
				}
				if k.inv > prevInv {
					prevInv = k.inv
				}
				nret++
			}
			justified, nass := false, 0
			for _, a := range asserts[id] {
				if a.inv < r {
					nass++
					if a.ret == 0 || a.ret > prevInv {
						justified = true
					}
				}
			}
			if !justified {
				fail("invented-wakeup", fmt.Sprintf("Fetch returned waker %d at stamp %d but no Assert of it overlaps or follows its previous return/clear (invoked at %d)", id, r, prevInv))
			} else if nret+1 > nass {
				fail("duplicated-wakeup", fmt.Sprintf("waker %d consumed %d times (Fetch returns and successful Clears) but asserted only %d times", id, nret+1, nass))
			}
			consumes[id] = append(consumes[id], &ival{inv: inv, ret: r, ok: true})
		}
		attach := func() {
			fetchState = "add"
			for i := range wakers {
				slp.AddWaker(&wakers[i], i)
				attached[i] = s.Stamp()
			}
			slp.AddWaker(&term, termID)
			fetchState = ""
		}
		s.Go(func(int) {
			attach()
			for _, op := range c.Scripts[0] {
				if stopped {
					return
				}
				switch op.K {
				case "fetch":
					fetchInv = s.Stamp()
					if op.A == 1 {
						fetchState = "block"
						id, ok := slp.Fetch(true)
						fetchState = ""
						if !ok {
							fail("blocking-fetch-failed", "Fetch(true) returned ok=false")
							continue
						}
						onReturn(id, fetchInv)
					} else {
						fetchState = "nonblock"
						id, ok := slp.Fetch(false)
						fetchState = ""
						if ok {
							onReturn(id, fetchInv)
							continue
						}
						r := s.Stamp()
						hist.Byte(0x50)
						for i := 0; i < nw; i++ {
							// An Assert that finds the waker already asserted returns at
							// once; the notification then travels with the earlier Assert,
							// which may still be on its way to the sleeper's list. The
							// demand is therefore made only when every Assert of this waker
							// invoked before the fetch returned had completed before the
							// fetch was invoked.
							inflight := false
							for _, a := range asserts[i] {
								if a.inv < r && (a.ret == 0 || a.ret > fetchInv) {
									inflight = true
								}
							}
							if inflight {
								continue
							}
							if a := unconsumed(i, fetchInv, r); a != nil {
								fail("nonblocking-fetch-missed", fmt.Sprintf("Fetch(false) invoked at %d reported nothing although waker %d has a completed Assert [%d,%d] that nothing consumed", fetchInv, i, a.inv, a.ret))
							}
						}
					}
				case "done":
					fetchState = "done"
					slp.Done()
					fetchState = ""
					s.Stamp()
					hist.Byte(0x60)
					dead = append(dead, deadSleeper{slp, raw(slp)})
					for i := range attached {
						attached[i] = 0
					}
					slp = new(sleep.Sleeper)
					o.Probes["done_then_reattach"]++
					attach()
				}
			}
		})
		for ti := 1; ti < len(c.Scripts); ti++ {
			script := c.Scripts[ti]
			s.Go(func(int) {
				for _, op := range script {
					i := op.A % nw
					switch op.K {
					case "assert":
						a := &ival{inv: s.Stamp()}
						asserts[i] = append(asserts[i], a)
						wakers[i].Assert()
						a.ret = s.Stamp()
					case "clear":
						k := &ival{inv: s.Stamp()}
						// A clear in progress may consume; record it as soon as invoked.
						consumes[i] = append(consumes[i], k)
						was := wakers[i].Clear()
						k.ret = s.Stamp()
						if !was {
							// consumed nothing: drop it
							for j, x := range consumes[i] {
								if x == k {
									consumes[i] = append(consumes[i][:j], consumes[i][j+1:]...)
									break
								}
							}
						} else {
							hist.Byte(byte(0x70 | i))
							ncons := 0
							for _, x := range consumes[i] {
								if x.ret != 0 {
									ncons++
								}
							}
							if ncons > len(asserts[i]) {
								fail("duplicated-wakeup", fmt.Sprintf("waker %d consumed %d times (Fetch returns and successful Clears) but asserted only %d times", i, ncons, len(asserts[i])))
							}
						}
					}
				}
			})
		}
		// at every step: only the fetcher inside a blocking Fetch may be asleep
		blocked := s.Run(func() {
			for _, id := range s.BlockedNow() {
				if id != 0 {
					fail("asserter-blocked", fmt.Sprintf("task %d went to sleep inside Assert/Clear", id))
				} else if fetchState == "nonblock" {
					fail("nonblocking-fetch-blocked", "Fetch(false) went to sleep")
				}
			}
		})
		if s.Panic != "" {
			fail("panic", s.Panic)
		}
		if s.Stuck {
			fail("stuck", fmt.Sprintf("step budget %d exhausted with runnable tasks left", s.MaxSteps))
		}
		fetcherBlocked := false
		for _, id := range blocked {
			if id != 0 {
				fail("asserter-blocked", fmt.Sprintf("task %d is blocked inside Assert/Clear", id))
				continue
			}
			fetcherBlocked = true
		}
		if fetcherBlocked && o.Class == "" {
			now := s.Stamp()
			switch fetchState {
			case "block":
				for i := 0; i < nw; i++ {
					if a := unconsumed(i, now, now); a != nil {
						fail("lost-wakeup", fmt.Sprintf("Fetch(true) sleeps although waker %d has a completed Assert [%d,%d] that was neither fetched nor cleared", i, a.inv, a.ret))
					}
				}
				if o.Class == "" {
					o.Probes["fetch_blocked_legitimately"]++
				}
			case "nonblock":
				fail("nonblocking-fetch-blocked", "Fetch(false) is blocked")
			case "done":
				fail("done-blocked", "Done is blocked although every asserting task has finished")
			default:
				fail("fetcher-blocked", "fetcher blocked in "+fetchState)
			}
		}
		if fetcherBlocked && o.Class == "" {
			// let the run end: the terminator waker wakes the fetcher
			term.Assert()
			blocked = s.Run(nil)
			if len(blocked) > 0 {
				fail("lost-wakeup", "fetcher still asleep after the terminator waker was asserted")
			}
		}
		for _, d := range dead {
			if !bytes.Equal(raw(d.p), d.snap) {
				fail("touched-after-done", "a sleeper's memory changed after its Done returned")
			}
		}
		s.Abandon()
		h := s.ILHash
		h.U64(uint64(hist))
		o.Hash = uint64(h)
		o.Steps, o.Switches, o.Schedule, o.Sites = s.Steps, s.Switches, s.Chosen, s.SiteHits
		o.Nontrivial = s.Switches >= 3 && (s.SiteHits["sleep.nextWaker.prepare"] > 0 || s.SiteHits["sleep.enqueue.casG"] > 0)
		if s.SiteHits["sleep.nextWaker.abort"] > 0 {
			o.Probes["sleeper_abort_before_commit"]++
		}
		if s.SiteHits["sleep.park.block"] > 0 {
			o.Probes["sleeper_parked"]++
		}
		if s.SiteHits["sleep.nextWaker.woken"] > 0 {
			o.Probes["sleeper_woken_or_commit_aborted"]++
		}
	})
	return o
}

package primsim

import (
	"fmt"
	"os"
	"sort"
	"testing"
	"time"

	"verif/sim"

	"github.com/brewlin/net-protocol/pkg/buffer"
	"github.com/brewlin/net-protocol/protocol/network/fragmentation"
)

// C08 (exported-API part): 1-4 tasks feed the fragments of 1-3 datagrams to
// one fragmentation.Fragmentation concurrently, in one or two phases separated
// by a jump of the fake clock. Script op: K="frag", A=datagram, B=first byte,
// C=last byte (inclusive), D=1 if more fragments follow. Datagram d has key
// 1000+d and length Params["len<d>"]; byte i of datagram d is g(d,i).
type c08 struct{}

func init() { props["C08"] = c08{} }

func c08Byte(seed uint64, d, i int) byte {
	return byte(sim.Mix(seed^uint64(d)<<32^uint64(i)) >> 13)
}

func c08Cut(rng *sim.Rand, d, n int) []Op {
	// cut [0,n) at random 8-byte-aligned points
	var ops []Op
	pos := 0
	fine := rng.Chance(0.25) // all pieces 8 bytes long: a long datagram then has dozens of fragments and holes
	for pos < n {
		l := 8 * rng.Range(1, 4)
		if rng.Chance(0.2) {
			l = 8 * rng.Range(1, 12)
		}
		if fine {
			l = 8
		}
		end := pos + l
		if end >= n {
			end = n
		}
		more := 1
		if end == n {
			more = 0
		}
		ops = append(ops, Op{K: "frag", A: d, B: pos, C: end - 1, D: more})
		pos = end
	}
	return ops
}

func (c08) Gen(rng *sim.Rand, tier string) *Case {
	nd := rng.Range(1, 3)
	nt := rng.Range(1, 4)
	c := &Case{Params: map[string]int{"tasks": nt, "datagrams": nd}}
	if rng.Chance(0.3) {
		c.Params["pct"] = rng.Range(1, 4)
	}
	if rng.Chance(0.3) {
		c.Params["gap_s"] = rng.Range(29, 40)
		if rng.Chance(0.5) {
			c.Params["gap_s"] = rng.Range(31, 300)
		}
	}
	if rng.Chance(0.15) {
		c.Params["high"] = 64 * rng.Range(2, 8)
		c.Params["low"] = c.Params["high"] / 2
	}
	maxLen := 160
	if tier == "thorough" {
		maxLen = 400
	}
	var pool [2][]Op // fragments per phase
	for d := 0; d < nd; d++ {
		n := rng.Range(9, maxLen)
		if rng.Chance(0.2) {
			n = rng.Range(130, 400) // long enough for more than sixteen fragments
		}
		c.Params[fmt.Sprintf("len%d", d)] = n
		cuts := 1
		if rng.Chance(0.3) {
			cuts = 2 // a second, different cut of the same datagram (overlaps agree on content)
		}
		for k := 0; k < cuts; k++ {
			fr := c08Cut(rng, d, n)
			// incomplete sets: sometimes withhold one fragment
			if rng.Chance(0.2) && len(fr) > 1 {
				i := rng.Intn(len(fr))
				fr = append(fr[:i], fr[i+1:]...)
			}
			for _, f := range fr {
				ph := 0
				if c.Params["gap_s"] > 0 && rng.Chance(0.4) {
					ph = 1
				}
				pool[ph] = append(pool[ph], f)
				if rng.Chance(0.15) {
					pool[ph] = append(pool[ph], f) // duplicate
				}
			}
		}
	}
	// scripts: phase p, task t -> script index p*nt+t
	for p := 0; p < 2; p++ {
		fr := pool[p]
		for i := len(fr) - 1; i > 0; i-- {
			j := rng.Intn(i + 1)
			fr[i], fr[j] = fr[j], fr[i]
		}
		scripts := make([][]Op, nt)
		for _, f := range fr {
			t := rng.Intn(nt)
			scripts[t] = append(scripts[t], f)
		}
		c.Scripts = append(c.Scripts, scripts...)
	}
	return c
}

func (c08) Exec(t *testing.T, c *Case, replay []int) *Outcome {
	o := &Outcome{Probes: map[string]int64{}}
	fail := func(class, detail string) {
		if o.Class == "" {
			o.Class, o.Detail = class, detail
		}
	}
	nt := c.Params["tasks"]
	nd := c.Params["datagrams"]
	bubble(t, func() {
		s := NewSched(sim.NewRand(sim.Mix(c.Seed ^ 0x08)))
		s.Debug = debugOn
		s.Replay = replay
		s.Depth = c.Params["pct"]
		s.Install()
		defer Uninstall()
		high, low := fragmentation.HighFragThreshold, fragmentation.LowFragThreshold
		if c.Params["high"] > 0 {
			high, low = c.Params["high"], c.Params["low"]
		}
		f := fragmentation.NewFragmentation(high, low, fragmentation.DefaultReassembleTimeout)
		type inj struct {
			d, first, last int
			more           bool
			inv, ret       int64
			at             time.Duration
			delivered      bool
		}
		type done struct {
			inv, ret int64
		}
		start := time.Now()
		var injs []*inj
		dones := make([][]done, nd)
		hist := sim.NewHash()
		injectedBytes := 0
		// covered reports whether [0,n) and a final fragment are covered by
		// injections usable for a delivery observed at stamp r / time at.
		covered := func(d, n int, r int64, at time.Duration, must bool, after int64) bool {
			cov := make([]bool, n)
			sawLast := false
			for _, x := range injs {
				if x.d != d || x.inv >= r {
					continue
				}
				if must && (x.ret == 0 || x.inv <= after) {
					continue // must-deliver counts only fragments handed in wholly after the last delivery returned
				}
				if x.ret != 0 && x.ret <= after {
					continue // wholly before the previous delivery of this key began
				}
				if at-x.at > fragmentation.DefaultReassembleTimeout {
					continue // older than the reassembly timeout
				}
				for i := x.first; i <= x.last && i < n; i++ {
					cov[i] = true
				}
				if !x.more {
					sawLast = true
				}
			}
			if !sawLast {
				return false
			}
			for _, b := range cov {
				if !b {
					return false
				}
			}
			return true
		}
		for phase := 0; phase < 2; phase++ {
			if phase == 1 {
				if c.Params["gap_s"] == 0 {
					break
				}
				time.Sleep(time.Duration(c.Params["gap_s"]) * time.Second)
				o.Probes["clock_jump"]++
				s = func() *Sched { // fresh task set, same PRNG stream and replay cursor
					n := NewSched(s.rng)
					n.Debug, n.Replay, n.rpos, n.Depth = s.Debug, s.Replay, s.rpos, s.Depth
					n.Steps, n.Chosen, n.ILHash, n.SiteHits, n.Switches, n.stamp = s.Steps, s.Chosen, s.ILHash, s.SiteHits, s.Switches, s.stamp
					n.Install()
					return n
				}()
			}
			for ti := 0; ti < nt; ti++ {
				if phase*nt+ti >= len(c.Scripts) {
					continue
				}
				script := c.Scripts[phase*nt+ti]
				s.Go(func(id int) {
					for _, op := range script {
						d := op.A % nd
						n := c.Params[fmt.Sprintf("len%d", d)]
						if op.B < 0 || op.C < op.B || op.C >= n {
							continue
						}
						payload := make([]byte, op.C-op.B+1)
						for i := range payload {
							payload[i] = c08Byte(c.Seed, d, op.B+i)
						}
						// hand the fragment over in two views, as the link layer may
						var vv buffer.VectorisedView
						if len(payload) > 8 {
							vv = buffer.NewVectorisedView(len(payload), []buffer.View{buffer.View(payload[:5]), buffer.View(payload[5:])})
						} else {
							vv = buffer.View(payload).ToVectorisedView()
						}
						x := &inj{d: d, first: op.B, last: op.C, more: op.D != 0, inv: s.Stamp(), at: time.Since(start)}
						injs = append(injs, x)
						injectedBytes += len(payload)
						res, ok := f.Process(uint32(1000+d), uint16(op.B), uint16(op.C), op.D != 0, vv)
						x.ret = s.Stamp()
						if !ok {
							if res.Size() != 0 {
								fail("payload-without-done", fmt.Sprintf("Process returned %d bytes with done=false", res.Size()))
							}
							continue
						}
						x.delivered = true
						hist.Byte(byte(0x10 | d))
						got := res.ToView()
						// the latest delivery of this key that wholly precedes this call
						var after int64
						for _, p := range dones[d] {
							if p.ret < x.inv && p.inv > after {
								after = p.inv
							}
						}
						dones[d] = append(dones[d], done{x.inv, x.ret})
						if len(got) != n {
							fail("wrong-length", fmt.Sprintf("datagram %d (%d bytes) handed up with %d bytes", d, n, len(got)))
							continue
						}
						for i := range got {
							if got[i] != c08Byte(c.Seed, d, i) {
								fail("corrupt-payload", fmt.Sprintf("datagram %d handed up with a wrong byte at offset %d (belongs to another datagram or position)", d, i))
								break
							}
						}
						if debugOn {
							for _, y := range injs {
								fmt.Fprintf(os.Stderr, "inj d=%d [%d,%d] more=%v inv=%d ret=%d\n", y.d, y.first, y.last, y.more, y.inv, y.ret)
							}
							fmt.Fprintf(os.Stderr, "delivery d=%d by task %d r=%d after=%d\n", d, id, x.ret, after)
						}
						if !covered(d, n, x.ret, x.at, false, after) {
							fail("premature-delivery", fmt.Sprintf("datagram %d handed up although the fragments received since its last delivery/timeout do not cover it (or lack the last fragment)", d))
						}
					}
				})
			}
			blocked := s.Run(nil)
			if s.Panic != "" {
				fail("panic", s.Panic)
			}
			if s.Stuck {
				fail("stuck", "step budget exhausted with runnable tasks left")
			}
			for _, id := range blocked {
				fail("blocked", fmt.Sprintf("task %d is blocked inside Process", id))
			}
			s.Abandon()
			// must-deliver, judged per phase: every fragment of a complete
			// set was handed in during this phase (no time passes inside a
			// phase), memory limits cannot have evicted anything
			// an upper bound of what the reassembler holds at any moment: a fragment counts from the moment it is
			// handed in; a delivery takes off, when it returns, the fragments of its key that were handed in wholly
			// before the delivering call began (and the delivering fragment). While that bound stays within the high
			// limit nothing may be evicted, however many bytes went through in total.
			peak := func() int {
				type ev struct {
					at int64
					d  int
				}
				var evs []ev
				gone := map[*inj]bool{}
				for _, x := range injs {
					evs = append(evs, ev{x.inv, x.last - x.first + 1})
				}
				for _, x := range injs {
					if !x.delivered {
						continue
					}
					sub := 0
					for _, y := range injs {
						if y.d == x.d && !gone[y] && (y == x || y.ret != 0 && y.ret < x.inv) {
							gone[y] = true
							sub += y.last - y.first + 1
						}
					}
					evs = append(evs, ev{x.ret, -sub})
				}
				sort.Slice(evs, func(i, j int) bool { return evs[i].at < evs[j].at || evs[i].at == evs[j].at && evs[i].d > evs[j].d })
				cur, max := 0, 0
				for _, e := range evs {
					cur += e.d
					if cur > max {
						max = cur
					}
				}
				return max
			}()
			if injectedBytes > high && peak <= high {
				o.Probes["more_bytes_than_the_limit_went_through_without_pressure"]++
			}
			if peak <= high {
				now := s.Stamp()
				at := time.Since(start)
				for d := 0; d < nd; d++ {
					n := c.Params[fmt.Sprintf("len%d", d)]
					var after int64
					for _, p := range dones[d] {
						if p.ret > after {
							after = p.ret // strictly after every delivery returned
						}
					}
					// only fragments injected in this phase: at == their time
					sub := covered(d, n, now, at, true, after)
					phaseOnly := true
					for _, x := range injs {
						if x.d == d && x.ret > after && at-x.at > 0 {
							phaseOnly = false // some usable fragment came from before the jump: timing-dependent
						}
					}
					if sub && phaseOnly && o.Class == "" {
						fail("missing-delivery", fmt.Sprintf("datagram %d: a complete set of fragments was received after its last delivery, within the timeout and the memory limits, yet nothing was handed up", d))
					}
				}
			} else {
				o.Probes["memory_pressure"]++
			}
		}
		for d := range dones {
			if len(dones[d]) > 0 {
				o.Probes["delivered"]++
			}
			if len(dones[d]) > 1 {
				o.Probes["delivered_twice_from_duplicates"]++
			}
		}
		h := s.ILHash
		h.U64(uint64(hist))
		o.Hash = uint64(h)
		o.Steps, o.Switches, o.Schedule, o.Sites = s.Steps, s.Switches, s.Chosen, s.SiteHits
		o.Nontrivial = o.Probes["delivered"] > 0 && len(injs) >= 3
	})
	return o
}

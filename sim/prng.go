package sim

// Rand is a splitmix64 stream. Every random choice of a run is drawn from one
// of these, derived from VERIF_SEED.
type Rand struct{ s uint64 }

func NewRand(seed uint64) *Rand { return &Rand{s: seed} }

func Mix(z uint64) uint64 {
	z += 0x9e3779b97f4a7c15
	z = (z ^ (z >> 30)) * 0xbf58476d1ce4e5b9
	z = (z ^ (z >> 27)) * 0x94d049bb133111eb
	return z ^ (z >> 31)
}

func (r *Rand) Uint64() uint64 {
	r.s += 0x9e3779b97f4a7c15
	z := r.s
	z = (z ^ (z >> 30)) * 0xbf58476d1ce4e5b9
	z = (z ^ (z >> 27)) * 0x94d049bb133111eb
	return z ^ (z >> 31)
}

// Intn returns a value in [0,n). n must be > 0.
func (r *Rand) Intn(n int) int {
	if n <= 0 {
		panic("sim: Intn with n <= 0")
	}
	return int(r.Uint64() % uint64(n))
}

// Range returns a value in [lo,hi].
func (r *Rand) Range(lo, hi int) int { return lo + r.Intn(hi-lo+1) }

func (r *Rand) Float() float64 { return float64(r.Uint64()>>11) / (1 << 53) }

// Chance is true with probability p.
func (r *Rand) Chance(p float64) bool { return r.Float() < p }

// Fork derives an independent stream.
func (r *Rand) Fork() *Rand { return NewRand(r.Uint64()) }

// Pick returns one of the weights' indices with probability proportional to
// its weight.
func (r *Rand) Pick(weights ...int) int {
	t := 0
	for _, w := range weights {
		t += w
	}
	x := r.Intn(t)
	for i, w := range weights {
		if x < w {
			return i
		}
		x -= w
	}
	return len(weights) - 1
}

// Hash is an FNV-1a style 64-bit accumulator for event logs.
type Hash uint64

func NewHash() Hash { return 14695981039346656037 }

func (h *Hash) Byte(b byte) { *h = (*h ^ Hash(b)) * 1099511628211 }
func (h *Hash) U64(v uint64) {
	for i := 0; i < 8; i++ {
		h.Byte(byte(v >> (8 * uint(i))))
	}
}
func (h *Hash) Str(s string) {
	for i := 0; i < len(s); i++ {
		h.Byte(s[i])
	}
	h.Byte(0xff)
}
func (h *Hash) Bytes(b []byte) {
	for _, c := range b {
		h.Byte(c)
	}
	h.Byte(0xfe)
}

package sim

import (
	"fmt"
	"os"
	"strconv"
	"time"
)

// Env is the worker protocol: the runner sets these, the worker obeys them.
type Env struct {
	Prop    string  // VERIF_PROP
	Mode    string  // VERIF_MODE: explore | replay
	Tier    string  // VERIF_TIER: quick | thorough
	Seed0   uint64  // VERIF_SEED0: first run seed
	NSeeds  int     // VERIF_NSEEDS: number of consecutive seeds (0 = until budget)
	BudgetS float64 // VERIF_BUDGET_S: wall budget for this worker
	Out     string  // VERIF_OUT: result file
	Marker  string  // VERIF_MARKER: progress marker file (seed being run)
	Replay  string  // VERIF_REPLAY: replay file (mode replay)
	Dir     string  // VERIF_REPLAY_DIR: where new replay files go
	Variant string  // VERIF_VARIANT: optional sub-scenario selector
	start   time.Time
}

func getU(name string, def uint64) uint64 {
	if v := os.Getenv(name); v != "" {
		n, err := strconv.ParseUint(v, 10, 64)
		if err == nil {
			return n
		}
	}
	return def
}

func LoadEnv() *Env {
	e := &Env{
		Prop: os.Getenv("VERIF_PROP"), Mode: os.Getenv("VERIF_MODE"), Tier: os.Getenv("VERIF_TIER"),
		Seed0: getU("VERIF_SEED0", 1), NSeeds: int(getU("VERIF_NSEEDS", 0)),
		Out: os.Getenv("VERIF_OUT"), Marker: os.Getenv("VERIF_MARKER"), Replay: os.Getenv("VERIF_REPLAY"),
		Dir: os.Getenv("VERIF_REPLAY_DIR"), Variant: os.Getenv("VERIF_VARIANT"), start: time.Now(),
	}
	if e.Mode == "" {
		e.Mode = "explore"
	}
	if e.Tier == "" {
		e.Tier = "quick"
	}
	if e.Dir == "" {
		e.Dir = "/verif/replays"
	}
	if v := os.Getenv("VERIF_BUDGET_S"); v != "" {
		e.BudgetS, _ = strconv.ParseFloat(v, 64)
	}
	return e
}

// Mark records the seed about to run. Called only between runs.
func (e *Env) Mark(seed uint64) {
	if e.Marker != "" {
		os.WriteFile(e.Marker, []byte(fmt.Sprintf("%d\n", seed)), 0o644)
	}
}

// More reports whether run number i (0-based) should still be started.
func (e *Env) More(i int) bool {
	if e.NSeeds > 0 && i >= e.NSeeds {
		return false
	}
	if e.BudgetS > 0 && time.Since(e.start).Seconds() > e.BudgetS {
		return false
	}
	return e.NSeeds > 0 || e.BudgetS > 0
}

func (e *Env) Elapsed() float64 { return time.Since(e.start).Seconds() }

package sim

import (
	"encoding/json"
	"os"
	"sort"
)

// Violation is one oracle failure found by a worker.
type Violation struct {
	Class   string `json:"class"`   // stable name of the oracle that fired
	Detail  string `json:"detail"`  // human-readable specifics
	Seed    uint64 `json:"seed"`    // run seed
	Replay  string `json:"replay"`  // path of the (minimised) replay file
	LogHash string `json:"loghash"` // event-log hash of the minimised run
	Known   string `json:"known"`   // id of the known finding it matches, if any
}

// Result is what a worker process writes when it finishes.
type Result struct {
	Property     string            `json:"property"`
	Runs         int               `json:"runs"`
	Steps        int64             `json:"steps"`
	SimNanos     int64             `json:"sim_nanos"`
	Nontrivial   int               `json:"nontrivial_runs"`
	Hashes       []uint64          `json:"hashes"` // event-log hashes of non-trivial runs
	Faults       map[string]int64  `json:"faults_fired"`
	Probes       map[string]int64  `json:"probes"`
	Yields       map[string]int64  `json:"yields"`
	Samples      []json.RawMessage `json:"samples"`
	Violations   []Violation       `json:"violations"`
	Inconclusive int               `json:"inconclusive"`
	Notes        []string          `json:"notes"`
	WallS        float64           `json:"wall_s"`
	Exhaustive   bool              `json:"exhaustive"`
}

func NewResult(prop string) *Result {
	return &Result{Property: prop, Faults: map[string]int64{}, Probes: map[string]int64{}, Yields: map[string]int64{}}
}

func (r *Result) Write(path string) error {
	sort.Slice(r.Hashes, func(i, j int) bool { return r.Hashes[i] < r.Hashes[j] })
	b, err := json.Marshal(r)
	if err != nil {
		return err
	}
	return os.WriteFile(path, b, 0o644)
}

// AddSample keeps at most three samples.
func (r *Result) AddSample(v interface{}) {
	if len(r.Samples) >= 3 {
		return
	}
	b, err := json.Marshal(v)
	if err == nil {
		r.Samples = append(r.Samples, b)
	}
}

package sim

// Minimize is delta debugging over a list: it returns a sub-list (order kept)
// for which test still returns true, trying to drop chunks of decreasing size
// and finally single items. budget bounds the number of test calls.
func Minimize[T any](items []T, budget int, test func([]T) bool) []T {
	cur := append([]T(nil), items...)
	calls := 0
	try := func(c []T) bool {
		if calls >= budget {
			return false
		}
		calls++
		return test(c)
	}
	n := 2
	for len(cur) >= 1 && calls < budget {
		if n > len(cur) {
			n = len(cur)
		}
		chunk := (len(cur) + n - 1) / n
		reduced := false
		for start := 0; start < len(cur); start += chunk {
			end := start + chunk
			if end > len(cur) {
				end = len(cur)
			}
			cand := append(append([]T(nil), cur[:start]...), cur[end:]...)
			if try(cand) {
				cur = cand
				if n > 2 {
					n--
				}
				reduced = true
				break
			}
		}
		if !reduced {
			if chunk == 1 {
				break
			}
			n *= 2
		}
	}
	return cur
}

// Package sim holds what the two engines share: the seeded PRNG, the links to
// the runtime overlay, worker result records, hashing and delta debugging.
package sim

import (
	"runtime"
	"runtime/debug"
	_ "unsafe"
)

//go:linkname verifSimSeed runtime.verifSimSeed
func verifSimSeed(s uint64)

//go:linkname verifGoid runtime.verifGoid
func verifGoid() uint64

// Goid returns the id of the calling goroutine (runtime overlay).
func Goid() uint64 { return verifGoid() }

// SeedRuntime seeds the order of same-instant timers and switches off
// time-slice pre-emption (runtime overlay). s must be non-zero.
func SeedRuntime(s uint64) {
	if s == 0 {
		s = 1
	}
	verifSimSeed(s)
}

// PinProcess puts the process into the single-P, GC-off mode every run needs.
func PinProcess() {
	runtime.GOMAXPROCS(1)
	debug.SetGCPercent(-1)
	// no collection during a run - unless a run allocates without bound (a stack
	// caught in a zero-length timer loop): then the collector keeps the process
	// inside 3 GB and the run ends in the runner's watchdog instead of exhausting
	// the machine
	debug.SetMemoryLimit(3 << 30)
}

// BetweenRuns collects garbage explicitly; called only while no run is active.
func BetweenRuns() {
	runtime.GC()
}

package sim

import (
	"encoding/json"
	"os"
	"strings"
)

// Known is one entry of /verif/known_findings.json.
type Known struct {
	ID       string   `json:"id"`
	Property string   `json:"property"`
	Status   string   `json:"status"` // open | fixed (fixed entries suppress nothing)
	Class    string   `json:"class"`
	Contains []string `json:"signature_contains"`
	What     string   `json:"what"`
}

// LoadKnown reads the known-findings file named by VERIF_KNOWN (the runner sets
// it); workers use it only to keep exploring past a listed finding instead of
// stopping at their violation cap. The runner does the authoritative matching.
func LoadKnown() []Known {
	p := os.Getenv("VERIF_KNOWN")
	if p == "" {
		return nil
	}
	b, err := os.ReadFile(p)
	if err != nil {
		return nil
	}
	var f struct {
		Findings []Known `json:"findings"`
	}
	if json.Unmarshal(b, &f) != nil {
		return nil
	}
	return f.Findings
}

// MatchKnown returns the open finding that lists this violation, if any.
func MatchKnown(ks []Known, prop, class, text string) *Known {
	for i := range ks {
		k := &ks[i]
		if k.Status != "open" || k.Property != prop || k.Class != class {
			continue
		}
		ok := true
		for _, s := range k.Contains {
			if !strings.Contains(text, s) {
				ok = false
			}
		}
		if ok {
			return k
		}
	}
	return nil
}

package netsim

import (
	"time"

	tcpip "github.com/brewlin/net-protocol/protocol"
	"github.com/brewlin/net-protocol/protocol/network/arp"
	"github.com/brewlin/net-protocol/protocol/network/ipv4"
	"github.com/brewlin/net-protocol/protocol/network/ipv6"
	"github.com/brewlin/net-protocol/protocol/transport/tcp"
	"github.com/brewlin/net-protocol/protocol/transport/udp"
	"github.com/brewlin/net-protocol/stack"
)

// simClock reads the bubble's fake clock.
type simClock struct{}

func (simClock) NowNanoseconds() int64 {
	if f := clockYield; f != nil {
		f()
	}
	return time.Now().UnixNano()
}
func (simClock) NowMonotonic() int64 { return time.Now().UnixNano() }

// Node is one real stack with one simulated NIC.
type Node struct {
	S     *stack.Stack
	Link  *Link
	Addr4 tcpip.Address
	Addr6 tcpip.Address
}

// NodeOpts are the stack-level swarm parameters.
type NodeOpts struct {
	SACK       bool
	CC         string // "reno" or "cubic" ("" = default)
	SndBuf     int    // default send buffer (0 = stack default)
	RcvBuf     int    // default receive buffer (0 = stack default)
	Resolution bool   // link requires address resolution (Ethernet-like)
	MAC        tcpip.LinkAddress
	Fd         bool // the NIC is the repository's fd-based Ethernet endpoint over a simulated descriptor
	Offload    bool // the (simulated) NIC declares checksum offload: TCP and UDP checksums are left to it, nothing else
}

var (
	A4 = tcpip.Address("\x0a\x00\x00\x01")
	B4 = tcpip.Address("\x0a\x00\x00\x02")
	A6 = tcpip.Address("\xfd\x00\x00\x00\x00\x00\x00\x00\x00\x00\x00\x00\x00\x00\x00\x01")
	B6 = tcpip.Address("\xfd\x00\x00\x00\x00\x00\x00\x00\x00\x00\x00\x00\x00\x00\x00\x02")
)

func must(err *tcpip.Error, what string) {
	if err != nil {
		panic("netsim setup: " + what + ": " + err.String())
	}
}

// NewNode builds a stack with IPv4, IPv6, ARP, TCP and UDP over a new link.
func (w *World) NewNode(name string, mtu uint32, a4, a6 tcpip.Address, peer int, o NodeOpts) *Node {
	s := stack.New([]string{ipv4.ProtocolName, ipv6.ProtocolName, arp.ProtocolName}, []string{tcp.ProtocolName, udp.ProtocolName}, stack.Options{Clock: simClock{}})
	var caps stack.LinkEndpointCapabilities
	if o.Resolution {
		caps |= stack.CapabilityResolutionRequired
	}
	if o.Offload {
		caps |= stack.CapabilityChecksumOffload
	}
	var l *Link
	if o.Fd {
		mac := o.MAC
		if mac == "" {
			mac = tcpip.LinkAddress("\x02\xaa\x00\x00\x00\x01")
		}
		l = w.AddFdLink(name, mtu, mac, o.Resolution, peer)
	} else {
		l = w.AddLink(name, mtu, caps, o.MAC, peer)
	}
	must(s.CreateNIC(1, l.id), "CreateNIC")
	must(s.AddAddress(1, ipv4.ProtocolNumber, a4), "AddAddress v4")
	must(s.AddAddress(1, ipv6.ProtocolNumber, a6), "AddAddress v6")
	l.Addrs = append(l.Addrs, a4, a6)
	if o.Resolution {
		must(s.AddAddress(1, arp.ProtocolNumber, arp.ProtocolAddress), "AddAddress arp")
	}
	s.SetRouteTable([]tcpip.Route{
		{Destination: "\x00\x00\x00\x00", Mask: "\x00\x00\x00\x00", NIC: 1},
		{Destination: tcpip.Address(make([]byte, 16)), Mask: tcpip.AddressMask(make([]byte, 16)), NIC: 1},
	})
	must(s.SetTransportProtocolOption(tcp.ProtocolNumber, tcp.SACKEnabled(o.SACK)), "SACKEnabled")
	if o.CC != "" {
		must(s.SetTransportProtocolOption(tcp.ProtocolNumber, tcp.CongestionControlOption(o.CC)), "CongestionControl")
	}
	if o.SndBuf > 0 {
		must(s.SetTransportProtocolOption(tcp.ProtocolNumber, tcp.SendBufferSizeOption{Min: 1, Default: o.SndBuf, Max: 8 << 20}), "SendBufferSize")
	}
	if o.RcvBuf > 0 {
		must(s.SetTransportProtocolOption(tcp.ProtocolNumber, tcp.ReceiveBufferSizeOption{Min: 1, Default: o.RcvBuf, Max: 8 << 20}), "ReceiveBufferSize")
	}
	w.stacks = append(w.stacks, s)
	return &Node{S: s, Link: l, Addr4: a4, Addr6: a6}
}

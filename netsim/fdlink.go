package netsim

import (
	"syscall"
	"testing/synctest"
	"time"
	"unsafe"

	"verif/netsim/codec"

	tcpip "github.com/brewlin/net-protocol/protocol"
	"github.com/brewlin/net-protocol/protocol/link/fdbased"
	"github.com/brewlin/net-protocol/protocol/link/rawfile"
)

// An fd link is the repository's real fd-based Ethernet endpoint whose file
// descriptor is the simulator: writes (write/writev through the rawfile seam)
// land on the simulated wire as Ethernet frames, and the endpoint's dispatch
// loop blocks in readv on a channel the simulator feeds. Framing, the receive
// scatter (128, 256, 256, 512, ... byte buffers) and the loop are real code.

var fdLinks = map[int]*Link{}

const fdBase = 1 << 20 // no descriptor of this process is anywhere near

var peerMAC = tcpip.LinkAddress("\x02\xbb\x00\x00\x00\x09")

func installFdSeam() {
	rawfile.VerifWrite = func(fd int, b1, b2 []byte) (*tcpip.Error, bool) {
		l := fdLinks[fd]
		if l == nil {
			return nil, false
		}
		if l.FailWrites > 0 {
			// injected fault: write(2) on the descriptor fails with EAGAIN/ENOBUFS
			l.FailWrites--
			l.w.Faults["link_write_error"]++
			l.w.Log.Byte(0xfe)
			if l.w.OnLinkError != nil {
				if e, err := codec.DecodeEth(append(append([]byte(nil), b1...), b2...)); err == nil {
					l.w.OnLinkError(&Frame{ID: -1, Link: l.Idx, Proto: tcpip.NetworkProtocolNumber(e.EtherType), Data: append([]byte(nil), e.Payload...), At: time.Since(l.w.T0), Eth: true})
				}
			}
			return tcpip.ErrWouldBlock, true
		}
		frame := append(append([]byte(nil), b1...), b2...)
		l.emitEthernet(frame)
		return nil, true
	}
	rawfile.VerifReadv = func(fd int, iov []syscall.Iovec) (int, *tcpip.Error, bool) {
		l := fdLinks[fd]
		if l == nil {
			return 0, nil, false
		}
		b, ok := <-l.fdrx
		if !ok {
			return 0, tcpip.ErrAborted, true
		}
		n := 0
		for i := range iov {
			if len(b) == 0 {
				break
			}
			dst := unsafe.Slice(iov[i].Base, int(iov[i].Len))
			c := copy(dst, b)
			b = b[c:]
			n += c
		}
		return n, nil, true
	}
}

// AddFdLink registers a real fd-based endpoint over a simulated descriptor.
func (w *World) AddFdLink(name string, mtu uint32, addr tcpip.LinkAddress, resolution bool, peer int) *Link {
	l := &Link{w: w, Idx: len(w.Links), Name: name, mtu: mtu, addr: addr, Peer: peer}
	l.fd = fdBase + l.Idx
	l.fdrx = make(chan []byte, 4096)
	fdLinks[l.fd] = l
	installFdSeam()
	l.id = fdbased.New(&fdbased.Options{FD: l.fd, MTU: mtu, Address: addr, ResolutionRequired: resolution,
		CloseFunc: func(*tcpip.Error) { l.fdDead = true }})
	w.Links = append(w.Links, l)
	w.Probes["fd_based_links"]++
	return l
}

// emitEthernet is the far end of the descriptor: one written frame.
func (l *Link) emitEthernet(frame []byte) {
	w := l.w
	if w.storm() {
		return
	}
	f := &Frame{ID: w.nframes, Link: l.Idx, At: time.Since(w.T0), Eth: true}
	w.nframes++
	l.Sent++
	e, err := codec.DecodeEth(frame)
	if err != nil {
		w.Fail("malformed-frame", "", "frame %d written to the fd-based link %d is not an Ethernet frame: %v (%d bytes: % x)", f.ID, l.Idx, err, len(frame), head(frame, 32))
		return
	}
	f.Proto = tcpip.NetworkProtocolNumber(e.EtherType)
	f.Data = append([]byte(nil), e.Payload...)
	f.SrcMAC, f.DstMAC = tcpip.LinkAddress(e.Src), tcpip.LinkAddress(e.Dst)
	if uint32(len(f.Data)) > l.mtu {
		// the stack does not fragment on output and no property bounds a frame by the MTU: counted only
		w.Probes["frames_larger_than_link_mtu"]++
	}
	if l.addr != "" && f.SrcMAC != l.addr {
		w.Fail("wrong-source-link-address", "", "frame %d written to the fd-based link %d has source MAC % x, the interface's address is % x", f.ID, l.Idx, []byte(f.SrcMAC), []byte(l.addr))
	}
	l.Queue = append(l.Queue, f)
	if !l.NoLog {
		w.Log.Byte(byte(l.Idx))
		w.Log.U64(uint64(f.At))
		w.Log.Bytes(frame)
	}
	w.Emitted = append(w.Emitted, f)
	if w.TraceOn {
		w.Tracef("emit link=%d frame=%d eth %s", l.Idx, f.ID, describe(f))
	}
	w.Probes["ethernet_frames_written"]++
	w.c06(f)
	w.relObserve(f.Proto, f.Data, l.Idx, true)
	if w.OnEmit != nil {
		w.OnEmit(f)
	}
	w.yield("link.write")
}

// fdInject queues one Ethernet frame for the endpoint's dispatch loop.
func (w *World) fdInject(l *Link, frame []byte, wait bool) {
	if l.fdDead {
		w.Probes["frames_for_a_dead_dispatch_loop"]++
		return
	}
	l.lastRx = len(frame)
	select {
	case l.fdrx <- frame:
	default:
	}
	if wait {
		synctest.Wait()
	}
}

func ethWrap(l *Link, proto tcpip.NetworkProtocolNumber, data []byte, src, dst tcpip.LinkAddress) []byte {
	if dst == "" {
		dst = l.addr
	}
	if dst == "" {
		dst = tcpip.LinkAddress("\x02\xaa\x00\x00\x00\x01")
	}
	if src == "" {
		src = peerMAC
	}
	return codec.EncodeEth([]byte(dst), []byte(src), uint16(proto), data)
}

// InjectRaw hands raw bytes to an fd link as one frame read from the descriptor.
func (w *World) InjectRaw(l *Link, frame []byte) {
	if l.fdrx == nil {
		return
	}
	if !l.NoLog {
		w.Log.Byte(0xa0 | byte(l.Idx))
		w.Log.Bytes(frame)
	}
	w.fdInject(l, append([]byte(nil), frame...), true)
}

func (w *World) closeFdLinks() {
	for _, l := range w.Links {
		if l.fdrx != nil {
			close(l.fdrx)
			delete(fdLinks, l.fd)
		}
	}
	if len(fdLinks) == 0 {
		rawfile.VerifWrite, rawfile.VerifReadv = nil, nil
	}
}

package netsim

import (
	"encoding/binary"
	"encoding/json"
	"fmt"
	"runtime/debug"
	"sort"
	"strings"
	"testing"
	"time"

	"verif/netsim/codec"
	"verif/sim"

	"github.com/brewlin/net-protocol/pkg/waiter"
	tcpip "github.com/brewlin/net-protocol/protocol"
	"github.com/brewlin/net-protocol/protocol/network/arp"
	"github.com/brewlin/net-protocol/protocol/network/ipv4"
	"github.com/brewlin/net-protocol/protocol/network/ipv6"
	"github.com/brewlin/net-protocol/protocol/transport/tcp"
	"github.com/brewlin/net-protocol/protocol/transport/udp"
)

// scHostile: C07 - no inbound frame sequence can crash the stack or stop it
// serving. A victim stack with a TCP listener, an established connection, UDP
// sockets, IPv4+IPv6+ARP takes a barrage of structure-aware mutations of frames
// a peer could legitimately send, small-scope fragment sequences and noise;
// afterwards it must still answer an echo request, complete a new TCP
// connection and deliver a UDP datagram.
type scHostile struct{}

func init() {
	scenarios["hostile"] = scHostile{}
	propScenario["C07"] = "hostile"
}

type HostileCfg struct {
	Frames   int     `json:"frames"`
	Mode     int     `json:"view_mode"` // 0 one view, 1 fd-based scatter
	YieldP   float64 `json:"yield_p"`
	FragEnum int     `json:"frag_enum_start"` // >= 0: enumerate fragment triples from this index (thorough tier)
	FragN    int     `json:"frag_enum_count"`
}

func (scHostile) GenCfg(rng *sim.Rand, tier, prop, variant string) json.RawMessage {
	c := HostileCfg{Frames: rng.Range(50, 400), Mode: rng.Intn(2), FragEnum: -1}
	if tier == "thorough" {
		c.Frames = rng.Range(50, 2000)
	}
	if rng.Chance(0.3) {
		c.YieldP = 0.1
	}
	if variant == "fragenum" {
		// complete enumeration of the fragment-triple grid: 64 chunks of 1000,
		// consecutive runs of a worker take consecutive chunks
		fragChunk = (fragChunk + 1) % 64
		c = HostileCfg{Mode: fragChunk % 2, FragEnum: fragChunk * 1000, FragN: 1000}
	}
	b, _ := json.Marshal(c)
	return b
}

var fragChunk = -1

type hostileWorld struct {
	*PeerWorld
	cfg    HostileCfg
	lep    tcpip.Endpoint
	conn   tcpip.Endpoint
	peer   *TCPPeer
	ubound tcpip.Endpoint
	uconn  tcpip.Endpoint
	nid    uint16
	nfd    int // connections opened for the "findup" step
}

// safeInject delivers a frame; a panic raised while the stack processes it on
// this goroutine is the violation this check exists for.
func (w *hostileWorld) safeInject(proto tcpip.NetworkProtocolNumber, data []byte) {
	defer func() {
		if r := recover(); r != nil {
			st := string(debug.Stack())
			where := ""
			for _, l := range strings.Split(st, "\n") {
				if strings.Contains(l, "/repo/") {
					where = strings.TrimSpace(l)
					break
				}
			}
			msg := fmt.Sprint(r)
			if len(msg) > 160 {
				msg = msg[:160]
			}
			w.Fail("panic", panicSig(msg), "the stack panicked while handling an inbound frame of %d bytes (% x...): %s [%s]", len(data), head(data, 40), msg, where)
		}
	}()
	w.Inject(w.S.Link, proto, data, "\x02\xbb\x00\x00\x00\x09", stackMAC, w.cfg.Mode)
	w.linkAlive()
}

// linkAlive: on the fd-based link the endpoint's receive loop must survive every frame.
func (w *hostileWorld) linkAlive() {
	if l := w.S.Link; l.fdDead {
		w.Fail("link-dead", "", "the fd-based endpoint's receive loop returned after reading a frame of %d bytes (Ethernet header included): the interface is deaf from then on", l.lastRx)
	}
}

func panicSig(msg string) string {
	switch {
	case strings.Contains(msg, "reassemble failed"):
		return "reassemble failed"
	case strings.Contains(msg, "index out of range"), strings.Contains(msg, "slice bounds"):
		return "bounds"
	}
	return "other"
}

func (w *hostileWorld) setup() bool {
	s := w.S.S
	mk := func(tp tcpip.TransportProtocolNumber, np tcpip.NetworkProtocolNumber) tcpip.Endpoint {
		ep, err := s.NewEndpoint(tp, np, &waiter.Queue{})
		must(err, "endpoint")
		return ep
	}
	w.lep = mk(tcp.ProtocolNumber, ipv4.ProtocolNumber)
	must(w.lep.Bind(tcpip.FullAddress{Port: 80}, nil), "bind")
	must(w.lep.Listen(8), "listen")
	w.ubound = mk(udp.ProtocolNumber, ipv6.ProtocolNumber) // dual stack, wildcard
	must(w.ubound.Bind(tcpip.FullAddress{Port: 5353}, nil), "udp bind")
	w.uconn = mk(udp.ProtocolNumber, ipv4.ProtocolNumber)
	must(w.uconn.Bind(tcpip.FullAddress{Addr: A4, Port: 5354}, nil), "udp bind")
	must(w.uconn.Connect(tcpip.FullAddress{Addr: B4, Port: 9000}), "udp connect")
	w.Settle()
	// an established connection with unread data
	p := w.NewTCPPeer(false, 9100, 80, 0x10000000)
	w.Take()
	p.Send(codec.FlagSYN, p.ISS, 0, 65535, codec.PadOpts(append(codec.OptMSS(1460), codec.OptSACKPerm()...)), nil)
	mine := p.Mine(w.Take())
	if len(mine) == 0 {
		return false
	}
	p.SndNxt = p.ISS + 1
	p.Send(codec.FlagACK, p.SndNxt, p.RcvNxt, 65535, nil, nil)
	p.Mine(w.Take())
	ep, _, err := w.lep.Accept()
	if err != nil {
		return false
	}
	w.conn, w.peer = ep, p
	p.Send(codec.FlagACK|codec.FlagPSH, p.SndNxt, p.RcvNxt, 65535, nil, []byte("unread data in the receive queue"))
	p.SndNxt += 32
	w.conn.Write(tcpip.SlicePayload([]byte("data in flight, never acknowledged")), tcpip.WriteOptions{})
	w.Settle()
	p.Mine(w.Take())
	return true
}

// base returns a frame a peer could legitimately send, and its ethertype.
func (w *hostileWorld) base(r *sim.Rand) (tcpip.NetworkProtocolNumber, []byte) {
	p := w.peer
	w.nid++
	switch r.Intn(12) {
	case 0: // SYN to the listener with options
		seg := codec.EncodeTCP([]byte(B4), []byte(A4), &codec.TCPSeg{SrcPort: uint16(20000 + r.Intn(1000)), DstPort: 80, Seq: uint32(r.Uint64()), Flags: codec.FlagSYN, Window: 65535,
			Opts: codec.PadOpts(append(append(codec.OptMSS(1460), codec.OptWS(7)...), append(codec.OptSACKPerm(), codec.OptTS(1, 0)...)...))})
		return ipv4.ProtocolNumber, codec.IPv4([]byte(B4), []byte(A4), codec.ProtoTCP, w.nid, 64, false, false, 0, seg)
	case 1: // in-window data for the established connection, with SACK/TS options
		seg := codec.EncodeTCP([]byte(B4), []byte(A4), &codec.TCPSeg{SrcPort: p.PPort, DstPort: 80, Seq: p.SndNxt + uint32(r.Intn(3000)), Ack: p.RcvNxt, Flags: codec.FlagACK | codec.FlagPSH, Window: 1000,
			Opts: codec.PadOpts(codec.OptSACK([][2]uint32{{p.RcvNxt + 10, p.RcvNxt + 20}})), Payload: make([]byte, r.Intn(600))})
		return ipv4.ProtocolNumber, codec.IPv4([]byte(B4), []byte(A4), codec.ProtoTCP, w.nid, 64, false, false, 0, seg)
	case 2: // ACK for the established connection
		seg := codec.EncodeTCP([]byte(B4), []byte(A4), &codec.TCPSeg{SrcPort: p.PPort, DstPort: 80, Seq: p.SndNxt, Ack: p.RcvNxt + uint32(r.Intn(40)), Flags: codec.FlagACK, Window: uint16(r.Intn(65536))})
		return ipv4.ProtocolNumber, codec.IPv4([]byte(B4), []byte(A4), codec.ProtoTCP, w.nid, 64, false, false, 0, seg)
	case 3: // UDP to the bound socket
		return ipv4.ProtocolNumber, codec.IPv4([]byte(B4), []byte(A4), codec.ProtoUDP, w.nid, 64, false, false, 0, codec.EncodeUDP([]byte(B4), []byte(A4), 9000, 5353, make([]byte, r.Intn(300))))
	case 4: // UDP to the connected socket
		return ipv4.ProtocolNumber, codec.IPv4([]byte(B4), []byte(A4), codec.ProtoUDP, w.nid, 64, false, false, 0, codec.EncodeUDP([]byte(B4), []byte(A4), 9000, 5354, make([]byte, r.Intn(300))))
	case 5: // echo request
		return ipv4.ProtocolNumber, codec.IPv4([]byte(B4), []byte(A4), codec.ProtoICMP, w.nid, 64, false, false, 0, codec.EncodeEcho([]byte(B4), []byte(A4), false, false, 7, 9, make([]byte, r.Intn(200))))
	case 6: // ICMP error quoting the connection's header (fragmentation needed / port unreachable)
		inner := codec.IPv4([]byte(A4), []byte(B4), codec.ProtoTCP, 1, 64, true, false, 0, codec.EncodeTCP([]byte(A4), []byte(B4), &codec.TCPSeg{SrcPort: 80, DstPort: p.PPort, Seq: p.RcvNxt, Flags: codec.FlagACK}))
		code, rest := uint8(4), uint32(r.Intn(2000))
		if r.Chance(0.5) {
			code, rest = 3, 0
			inner = codec.IPv4([]byte(A4), []byte(B4), codec.ProtoUDP, 1, 64, false, false, 0, codec.EncodeUDP([]byte(A4), []byte(B4), 5354, 9000, nil))
		}
		return ipv4.ProtocolNumber, codec.IPv4([]byte(B4), []byte(A4), codec.ProtoICMP, w.nid, 64, false, false, 0, codec.EncodeICMPv4(3, code, rest, inner))
	case 7: // ARP request / reply
		return arp.ProtocolNumber, codec.EncodeARP(uint16(1+r.Intn(2)), []byte("\x02\xbb\x00\x00\x00\x09"), []byte(B4), make([]byte, 6), []byte(A4))
	case 8: // IPv6 UDP
		return ipv6.ProtocolNumber, codec.IPv6([]byte(B6), []byte(A6), codec.ProtoUDP, 64, codec.EncodeUDP([]byte(B6), []byte(A6), 9000, 5353, make([]byte, r.Intn(300))))
	case 9: // IPv6 echo / neighbour solicitation / packet too big
		switch r.Intn(3) {
		case 0:
			return ipv6.ProtocolNumber, codec.IPv6([]byte(B6), []byte(A6), codec.ProtoICMPv6, 64, codec.EncodeEcho([]byte(B6), []byte(A6), true, false, 1, 2, make([]byte, r.Intn(100))))
		case 1:
			body := append(append([]byte(nil), []byte(A6)...), 1, 1, 2, 0xbb, 0, 0, 0, 9)
			return ipv6.ProtocolNumber, codec.IPv6([]byte(B6), []byte(A6), codec.ProtoICMPv6, 255, codec.EncodeICMPv6([]byte(B6), []byte(A6), 135, 0, 0, body))
		}
		inner := codec.IPv6([]byte(A6), []byte(B6), codec.ProtoUDP, 64, codec.EncodeUDP([]byte(A6), []byte(B6), 5353, 9000, nil))
		if r.Chance(0.5) {
			// the quoted packet is a fragment of the stack's own: next header 44, then 0-16 bytes of what
			// should be an 8-byte fragment header followed by the transport header
			frag := append([]byte{codec.ProtoUDP, 0, 0, 0, 0, 0, 0, 7}, codec.EncodeUDP([]byte(A6), []byte(B6), 5353, 9000, nil)...)
			inner = codec.IPv6([]byte(A6), []byte(B6), 44, 64, frag[:r.Intn(17)])
		}
		typ, code, rest := uint8(2), uint8(0), uint32(1280)
		if r.Chance(0.3) {
			typ, code, rest = 1, 4, 0 // destination unreachable: port unreachable
		}
		return ipv6.ProtocolNumber, codec.IPv6([]byte(B6), []byte(A6), codec.ProtoICMPv6, 64, codec.EncodeICMPv6([]byte(B6), []byte(A6), typ, code, rest, inner))
	case 10: // IPv6 TCP SYN to nobody
		seg := codec.EncodeTCP([]byte(B6), []byte(A6), &codec.TCPSeg{SrcPort: 1234, DstPort: 80, Seq: 1, Flags: codec.FlagSYN, Window: 100})
		return ipv6.ProtocolNumber, codec.IPv6([]byte(B6), []byte(A6), codec.ProtoTCP, 64, seg)
	}
	// FIN / RST for the connection, out of window
	seg := codec.EncodeTCP([]byte(B4), []byte(A4), &codec.TCPSeg{SrcPort: p.PPort, DstPort: 80, Seq: p.SndNxt + 100000, Ack: p.RcvNxt, Flags: []uint8{codec.FlagFIN | codec.FlagACK, codec.FlagRST, codec.FlagSYN | codec.FlagFIN | codec.FlagRST | codec.FlagACK | codec.FlagURG}[r.Intn(3)], Window: 0})
	return ipv4.ProtocolNumber, codec.IPv4([]byte(B4), []byte(A4), codec.ProtoTCP, w.nid, 64, false, false, 0, seg)
}

// mutate applies a structure-aware mutation.
func mutate(r *sim.Rand, proto tcpip.NetworkProtocolNumber, b []byte) []byte {
	b = append([]byte(nil), b...)
	hdr := 20
	if proto == ipv6.ProtocolNumber {
		hdr = 40
	}
	if proto == arp.ProtocolNumber {
		hdr = 8
	}
	vals := func(actual int) int {
		v := []int{0, 1, 0xff, 0xffff, actual + 1, actual - 1, 0x8000, 2, 5, 15}
		return v[r.Intn(len(v))]
	}
	switch r.Intn(14) {
	case 0: // truncate at a header boundary +-1
		cuts := []int{0, 1, hdr - 1, hdr, hdr + 1, hdr + 7, hdr + 8, hdr + 19, hdr + 20, hdr + 21, len(b) - 1}
		c := cuts[r.Intn(len(cuts))]
		if c >= 0 && c < len(b) {
			b = b[:c]
		}
	case 1: // flip bits
		for k := r.Range(1, 4); k > 0 && len(b) > 0; k-- {
			b[r.Intn(len(b))] ^= 1 << uint(r.Intn(8))
		}
	case 2: // version / IHL byte
		if len(b) > 0 {
			b[0] = byte(vals(int(b[0])))
		}
	case 3: // IPv4 total length / IPv6 payload length
		if proto == ipv4.ProtocolNumber && len(b) >= 4 {
			binary.BigEndian.PutUint16(b[2:], uint16(vals(len(b))))
		} else if proto == ipv6.ProtocolNumber && len(b) >= 6 {
			binary.BigEndian.PutUint16(b[4:], uint16(vals(len(b)-40)))
		}
	case 4: // fragment offset / flags
		if proto == ipv4.ProtocolNumber && len(b) >= 8 {
			binary.BigEndian.PutUint16(b[6:], uint16(r.Intn(65536)))
		}
	case 5: // TCP data offset
		if len(b) > hdr+12 {
			b[hdr+12] = byte(vals(int(b[hdr+12]>>4))) << 4
		}
	case 6: // TCP option length bytes
		if len(b) > hdr+21 {
			for i := hdr + 20; i+1 < len(b) && i < hdr+60; {
				if b[i] <= 1 {
					i++
					continue
				}
				if r.Chance(0.5) {
					b[i+1] = byte(vals(int(b[i+1])))
				}
				l := int(b[i+1])
				if l < 2 {
					break
				}
				i += l
			}
		}
	case 7: // UDP length
		if len(b) >= hdr+6 {
			binary.BigEndian.PutUint16(b[hdr+4:], uint16(vals(len(b)-hdr)))
		}
	case 8: // protocol / next header
		if proto == ipv4.ProtocolNumber && len(b) > 9 {
			b[9] = byte([]int{0, 1, 2, 6, 17, 41, 44, 58, 255}[r.Intn(9)])
		} else if proto == ipv6.ProtocolNumber && len(b) > 6 {
			b[6] = byte([]int{0, 6, 17, 43, 44, 58, 59, 60, 255}[r.Intn(9)])
		}
	case 9: // all-zero / all-ones tail
		if len(b) > hdr {
			for i := hdr + r.Intn(len(b)-hdr); i < len(b); i++ {
				b[i] = byte(0 - r.Intn(2))
			}
		}
	case 10: // ICMP inner header truncated / garbage
		if len(b) > hdr+12 {
			b = b[:hdr+8+r.Intn(len(b)-hdr-8)]
		}
	case 11: // flags byte
		if len(b) > hdr+13 {
			b[hdr+13] = byte(r.Intn(256))
		}
	case 12: // ARP fields
		if proto == arp.ProtocolNumber && len(b) >= 8 {
			b[r.Intn(8)] = byte(vals(0))
		}
	case 13: // append garbage
		for k := r.Intn(40); k > 0; k-- {
			b = append(b, byte(r.Intn(256)))
		}
	}
	return b
}

var (
	fragOffs = []int{0, 8, 16, 24, 65528}
	fragLens = []int{0, 8, 16, 24}
)

// fragSeq injects the idx-th sequence of three fragments from the small-scope grid.
func (w *hostileWorld) fragSeq(idx int) {
	w.nid++
	id := w.nid
	for k := 0; k < 3; k++ {
		c := idx % 40
		idx /= 40
		off, ln, mf := fragOffs[c%5], fragLens[(c/5)%4], (c/20)%2 == 1
		payload := make([]byte, ln)
		for i := range payload {
			payload[i] = byte(off + i)
		}
		if off == 0 && ln >= 8 {
			// looks like the start of a UDP datagram to the bound socket
			copy(payload, []byte{0x23, 0x28, 0x14, 0xe9, 0, 24, 0, 0})
		}
		pkt := make([]byte, 20+ln)
		pkt[0] = 0x45
		binary.BigEndian.PutUint16(pkt[2:], uint16(20+ln))
		binary.BigEndian.PutUint16(pkt[4:], id)
		fo := uint16(off / 8)
		if mf {
			fo |= 0x2000
		}
		binary.BigEndian.PutUint16(pkt[6:], fo)
		pkt[8], pkt[9] = 64, codec.ProtoUDP
		copy(pkt[12:], []byte(B4))
		copy(pkt[16:], []byte(A4))
		binary.BigEndian.PutUint16(pkt[10:], codec.Fold(codec.Sum(pkt[:20], 0)))
		copy(pkt[20:], payload)
		w.safeInject(ipv4.ProtocolNumber, pkt)
		if w.Viol != nil {
			return
		}
	}
	w.Probes["fragment_triples"]++
}

func (w *hostileWorld) apply(s Step) {
	r := sim.NewRand(sim.Mix(w.seed ^ uint64(s.B)<<8 ^ uint64(s.A)))
	switch s.Op {
	case "mut":
		proto, b := w.base(r)
		for k := r.Range(1, 2); k > 0; k-- {
			b = mutate(r, proto, b)
		}
		if r.Chance(0.05) {
			proto = []tcpip.NetworkProtocolNumber{ipv4.ProtocolNumber, ipv6.ProtocolNumber, arp.ProtocolNumber, 0x1234}[r.Intn(4)]
		}
		w.safeInject(proto, b)
		w.Probes["mutated_frames"]++
	case "valid":
		proto, b := w.base(r)
		w.safeInject(proto, b)
		w.Probes["valid_frames"]++
	case "frag":
		w.fragSeq(s.B)
	case "fragrand":
		// longer random sequences over a few ids
		for k := r.Range(2, 12); k > 0 && w.Viol == nil; k-- {
			id := uint16(1000 + r.Intn(3))
			off, ln, mf := 8*r.Intn(8), 8*r.Intn(5), r.Chance(0.6)
			if r.Chance(0.1) {
				off = 65528
			}
			w.safeInject(ipv4.ProtocolNumber, codec.IPv4([]byte(B4), []byte(A4), codec.ProtoUDP, id, 64, false, mf, off, make([]byte, ln)))
		}
		w.Probes["random_fragment_sequences"]++
	case "fragvalid":
		// a well-formed (or slightly mutated) IPv4 packet arriving as 2-4 fragments: the
		// transport header may straddle fragments, so it reaches the transport layer in several views
		proto, b := w.base(r)
		if r.Chance(0.3) {
			b = mutate(r, proto, b)
		}
		if proto != ipv4.ProtocolNumber || len(b) < 36 || b[0] != 0x45 || int(binary.BigEndian.Uint16(b[2:])) != len(b) || binary.BigEndian.Uint16(b[6:])&0x3fff != 0 {
			w.safeInject(proto, b)
			break
		}
		payload := b[20:]
		w.nid++
		id := 20000 + w.nid
		var cuts []int
		ncut := r.Range(1, 3)
		many := r.Chance(0.25) && len(payload) > 120
		if many {
			ncut = r.Range(9, 24) // a dozen and more pieces: one view per fragment reaches the transport layer
			w.Probes["transport_packets_in_many_fragments"]++
		}
		for k := ncut; k > 0; k-- {
			c := 8 * r.Range(1, 5)
			if many || r.Chance(0.3) {
				c = 8 * r.Range(1, (len(payload)-1)/8)
			}
			if c < len(payload) {
				cuts = append(cuts, c)
			}
		}
		cuts = append(cuts, 0, len(payload))
		sort.Ints(cuts)
		var frs [][]byte
		for i := 0; i+1 < len(cuts); i++ {
			if cuts[i] == cuts[i+1] {
				continue
			}
			frs = append(frs, codec.IPv4(b[12:16], b[16:20], b[9], id, 64, false, cuts[i+1] != len(payload), cuts[i], payload[cuts[i]:cuts[i+1]]))
		}
		switch r.Intn(4) {
		case 0:
			for i, j := 0, len(frs)-1; i < j; i, j = i+1, j-1 {
				frs[i], frs[j] = frs[j], frs[i]
			}
		case 1:
			frs = append(frs, frs[r.Intn(len(frs))])
		}
		for _, f := range frs {
			if w.Viol == nil {
				w.safeInject(ipv4.ProtocolNumber, f)
			}
		}
		w.Probes["transport_packets_in_fragments"]++
	case "finooo":
		// well-formed, in a particular order: a segment carrying data and FIN arrives ahead of a
		// hole on the established connection, then the segment that fills the hole exactly
		p := w.peer
		gap := 1 + s.A%1200
		k := 1 + s.B%300
		w.nid++
		seg := codec.EncodeTCP([]byte(B4), []byte(A4), &codec.TCPSeg{SrcPort: p.PPort, DstPort: 80, Seq: p.SndNxt + uint32(gap), Ack: p.RcvNxt, Flags: codec.FlagACK | codec.FlagFIN | codec.FlagPSH, Window: 65535, Payload: make([]byte, k)})
		w.safeInject(ipv4.ProtocolNumber, codec.IPv4([]byte(B4), []byte(A4), codec.ProtoTCP, w.nid, 64, false, false, 0, seg))
		w.nid++
		fill := codec.EncodeTCP([]byte(B4), []byte(A4), &codec.TCPSeg{SrcPort: p.PPort, DstPort: 80, Seq: p.SndNxt, Ack: p.RcvNxt, Flags: codec.FlagACK | codec.FlagPSH, Window: 65535, Payload: make([]byte, gap)})
		if w.Viol == nil {
			w.safeInject(ipv4.ProtocolNumber, codec.IPv4([]byte(B4), []byte(A4), codec.ProtoTCP, w.nid, 64, false, false, 0, fill))
		}
		w.Probes["fin_with_data_ahead_of_a_hole"]++
	case "udpflood":
		// well-formed datagrams for the bound socket, more than its receive buffer holds, nobody reading:
		// the overflow is dropped, nothing else happens
		for i := 0; i < 36+s.A%16 && w.Viol == nil; i++ {
			w.nid++
			w.safeInject(ipv4.ProtocolNumber, codec.IPv4([]byte(B4), []byte(A4), codec.ProtoUDP, w.nid, 64, false, false, 0, codec.EncodeUDP([]byte(B4), []byte(A4), 9000, 5353, make([]byte, 1000+s.B%400))))
		}
		w.Probes["bound_socket_flooded_beyond_its_buffer"]++
	case "findup":
		// well-formed, in a particular order: a connection whose local side has shut down writing, so that its
		// FIN is all that is in flight; three identical ACKs that do not cover the FIN, then one that does
		for {
			ep, _, err := w.lep.Accept()
			if err != nil {
				break
			}
			ep.Close()
		}
		w.Settle()
		w.Take()
		w.nfd++
		p := w.NewTCPPeer(false, uint16(9800+w.nfd%100), 80, uint32(0x33330000+s.A))
		p.Send(codec.FlagSYN, p.ISS, 0, 65535, nil, nil)
		mine := p.Mine(w.Take())
		if len(mine) == 0 || mine[0].Flags&(codec.FlagSYN|codec.FlagACK) != codec.FlagSYN|codec.FlagACK {
			break
		}
		p.SndNxt = p.ISS + 1
		p.Send(codec.FlagACK, p.SndNxt, p.RcvNxt, 65535, nil, nil)
		p.Mine(w.Take())
		ep, _, err := w.lep.Accept()
		if err != nil {
			break
		}
		ep.Shutdown(tcpip.ShutdownWrite)
		w.Settle()
		var fin *codec.TCP
		for _, t := range p.Mine(w.Take()) {
			if t.Flags&codec.FlagFIN != 0 {
				fin = t
			}
		}
		if fin != nil {
			for i := 0; i < 3+s.B%3; i++ {
				p.Send(codec.FlagACK, p.SndNxt, fin.Seq, 65535, nil, nil)
			}
			p.Send(codec.FlagACK, p.SndNxt, fin.Seq+1, 65535, nil, nil)
			p.Mine(w.Take())
			w.Probes["duplicate_acks_with_only_a_fin_in_flight"]++
		}
		ep.Close()
		w.Settle()
		p.Mine(w.Take())
	case "runt":
		// fd-based link only: a frame shorter than, or just as long as, an Ethernet header
		if w.S.Link.fdrx != nil {
			b := make([]byte, 1+s.A%16)
			for i := range b {
				b[i] = byte(r.Intn(256))
			}
			w.InjectRaw(w.S.Link, b)
			w.linkAlive()
			w.Probes["runt_ethernet_frames"]++
		}
	case "noise":
		b := make([]byte, r.Intn(120))
		for i := range b {
			b[i] = byte(r.Intn(256))
		}
		w.safeInject([]tcpip.NetworkProtocolNumber{ipv4.ProtocolNumber, ipv6.ProtocolNumber, arp.ProtocolNumber}[r.Intn(3)], b)
		w.Probes["noise_frames"]++
	case "adv":
		w.Advance(time.Duration(s.D))
	}
	w.Take()
}

// serve checks that the stack still does its job.
func (w *hostileWorld) serve() {
	w.Advance(2 * time.Second)
	// the peer's (static) neighbour entry may have aged out during clock jumps
	w.S.S.AddLinkAddress(1, B4, "\x02\xbb\x00\x00\x00\x09")
	w.S.S.AddLinkAddress(1, B6, "\x02\xbb\x00\x00\x00\x09")
	w.Take()
	// 1. echo
	data := []byte("still there?")
	w.safeInject(ipv4.ProtocolNumber, codec.IPv4([]byte(B4), []byte(A4), codec.ProtoICMP, 60000, 64, false, false, 0, codec.EncodeEcho([]byte(B4), []byte(A4), false, false, 0x4242, 1, data)))
	if w.Viol != nil {
		return
	}
	ok := false
	for _, d := range w.Take() {
		if d.ICMP != nil && !d.IP.V6 && d.ICMP.Type == 0 && d.ICMP.Ident == 0x4242 && string(d.ICMP.Data) == string(data) {
			ok = true
		}
	}
	if !ok {
		w.Fail("stopped-serving", "echo", "after the barrage an echo request to the stack's address is not answered any more")
		return
	}
	// 2. a new TCP connection completes and a byte flows each way
	for {
		ep, _, err := w.lep.Accept()
		if err != nil {
			break
		}
		ep.Close()
	}
	w.Settle()
	w.Take()
	p := w.NewTCPPeer(false, 9777, 80, 0x22222222)
	p.Send(codec.FlagSYN, p.ISS, 0, 65535, nil, nil)
	mine := p.Mine(w.Take())
	if len(mine) == 0 || mine[0].Flags&(codec.FlagSYN|codec.FlagACK) != codec.FlagSYN|codec.FlagACK {
		w.Fail("stopped-serving", "tcp", "after the barrage a SYN to the listening port draws no SYN-ACK")
		return
	}
	p.SndNxt = p.ISS + 1
	p.Send(codec.FlagACK, p.SndNxt, p.RcvNxt, 65535, nil, nil)
	p.Mine(w.Take())
	ep, _, err := w.lep.Accept()
	if err != nil {
		w.Fail("stopped-serving", "tcp", "after the barrage a complete handshake yields no connection (%v)", err)
		return
	}
	p.Send(codec.FlagACK|codec.FlagPSH, p.SndNxt, p.RcvNxt, 65535, nil, []byte("x"))
	p.SndNxt++
	p.Mine(w.Take())
	if v, _, err := ep.Read(nil); err != nil || string(v) != "x" {
		w.Fail("stopped-serving", "tcp", "after the barrage a byte sent on a new connection is not readable (%v)", err)
		return
	}
	ep.Write(tcpip.SlicePayload([]byte("y")), tcpip.WriteOptions{})
	w.Settle()
	got := false
	for _, t := range p.Mine(w.Take()) {
		if string(t.Payload) == "y" {
			got = true
		}
	}
	if !got {
		w.Fail("stopped-serving", "tcp", "after the barrage a byte written on a new connection is not sent")
		return
	}
	ep.Close()
	// 3. UDP: drain what the barrage legitimately queued, then one datagram must arrive intact
	for {
		if _, _, err := w.ubound.Read(nil); err != nil {
			break
		}
	}
	msg := []byte("datagram after the barrage")
	w.safeInject(ipv4.ProtocolNumber, codec.IPv4([]byte(B4), []byte(A4), codec.ProtoUDP, 60001, 64, false, false, 0, codec.EncodeUDP([]byte(B4), []byte(A4), 9000, 5353, msg)))
	if w.Viol != nil {
		return
	}
	var from tcpip.FullAddress
	if v, _, err := w.ubound.Read(&from); err != nil || string(v) != string(msg) {
		w.Fail("stopped-serving", "udp", "after the barrage a datagram to the bound UDP socket is not delivered intact (%v)", err)
	}
	w.Probes["served_after_barrage"]++
}

func (w *hostileWorld) next() Step {
	r := w.Rng
	switch r.Pick(12, 2, 4, 2, 2, 1, 3, 1, 1, 1, 1) {
	case 10:
		return Step{Op: "udpflood", A: r.Intn(16), B: r.Intn(400)}
	case 9:
		return Step{Op: "findup", A: r.Intn(60000), B: r.Intn(3)}
	case 0:
		return Step{Op: "mut", A: r.Intn(1 << 20), B: r.Intn(1 << 20)}
	case 1:
		return Step{Op: "valid", A: r.Intn(1 << 20), B: r.Intn(1 << 20)}
	case 2:
		return Step{Op: "frag", B: r.Intn(64000)}
	case 3:
		return Step{Op: "fragrand", A: r.Intn(1 << 20), B: r.Intn(1 << 20)}
	case 4:
		return Step{Op: "noise", A: r.Intn(1 << 20), B: r.Intn(1 << 20)}
	case 6:
		return Step{Op: "fragvalid", A: r.Intn(1 << 20), B: r.Intn(1 << 20)}
	case 7:
		return Step{Op: "runt", A: r.Intn(16), B: r.Intn(1 << 20)}
	case 8:
		return Step{Op: "finooo", A: r.Intn(1200), B: r.Intn(300)}
	}
	return Step{Op: "adv", D: int64(time.Duration([]int{10, 1000, 29000, 31000, 61000}[r.Intn(5)]) * time.Millisecond)}
}

func (scHostile) Run(t *testing.T, prop string, seed uint64, cfgRaw json.RawMessage, steps []Step, tape []byte, trace bool) *RunOut {
	var cfg HostileCfg
	json.Unmarshal(cfgRaw, &cfg)
	o := &RunOut{Cfg: cfgRaw}
	bubble(t, func() {
		w := &hostileWorld{PeerWorld: NewPeerWorld(seed, 1500, NodeOpts{Resolution: true, MAC: stackMAC, SACK: true}), cfg: cfg}
		defer w.Close()
		w.TraceOn = trace
		w.YieldP = cfg.YieldP
		// the monitor's verdicts on what the stack emits under attack belong to C06
		w.OnEmit = func(f *Frame) {
			d := w.Mon.Check(f)
			w.Seen = append(w.Seen, d)
		}
		// the peer's link address is known (static neighbour), so replies can leave
		w.S.S.AddLinkAddress(1, B4, "\x02\xbb\x00\x00\x00\x09")
		w.S.S.AddLinkAddress(1, B6, "\x02\xbb\x00\x00\x00\x09")
		if !w.setup() {
			w.Probes["setup_failed"]++
			finish(w.World, o)
			return
		}
		if steps == nil {
			if cfg.FragEnum >= 0 {
				for i := 0; i < cfg.FragN && w.Viol == nil; i++ {
					s := Step{Op: "frag", B: cfg.FragEnum + i}
					w.Steps = append(w.Steps, s)
					w.apply(s)
					w.NSteps++
				}
			} else {
				for i := 0; i < cfg.Frames && w.Viol == nil; i++ {
					s := w.next()
					w.Steps = append(w.Steps, s)
					w.apply(s)
					w.NSteps++
				}
			}
		} else {
			for _, s := range steps {
				w.apply(s)
				w.NSteps++
				if w.Viol != nil {
					break
				}
			}
			w.Steps = steps
		}
		if w.Viol == nil {
			// keep the static neighbour entries alive across clock jumps
			w.S.S.AddLinkAddress(1, B4, "\x02\xbb\x00\x00\x00\x09")
			w.serve()
		}
		w.OnEmit = nil
		if w.Viol == nil {
			w.conn.Close()
			w.lep.Close()
			w.ubound.Close()
			w.uconn.Close()
			w.Advance(70 * time.Second)
		}
		finish(w.World, o)
		if w.Replay {
			o.Tape = tape
		}
		o.Nontrivial = w.Probes["mutated_frames"]+w.Probes["fragment_triples"] > 0
	})
	return o
}

package netsim

import (
	"bytes"
	"encoding/json"
	"testing"
	"time"

	"verif/netsim/codec"
	"verif/sim"

	tcpip "github.com/brewlin/net-protocol/protocol"
	"github.com/brewlin/net-protocol/protocol/network/ipv4"
	"github.com/brewlin/net-protocol/protocol/network/ipv6"
)

// scEcho: C13 - echo requests are answered once, mirroring identifier,
// sequence number and payload. One stack, scripted peer; the property does not
// quantify over schedules, so yields are off in the gating runs.
type scEcho struct{}

func init() {
	scenarios["echo"] = scEcho{}
	propScenario["C13"] = "echo"
}

type EchoCfg struct {
	MTU      int     `json:"mtu"`
	MaxSteps int     `json:"max_steps"`
	YieldP   float64 `json:"yield_p"`
	Subnet4  bool    `json:"ipv4_subnet,omitempty"`      // the interface also owns the IPv4 subnet 32.1.13.0/24 (whose bytes are the first four of 2001:db8::/32)
	Offload  bool    `json:"checksum_offload,omitempty"` // the NIC declares checksum offload (which covers TCP and UDP, not ICMP)
}

func (scEcho) GenCfg(rng *sim.Rand, tier, prop, variant string) json.RawMessage {
	c := EchoCfg{MTU: []int{576, 1280, 1500, 1500, 9000, 65535}[rng.Intn(6)], MaxSteps: rng.Range(5, 60)}
	if variant == "perturbed" {
		c.YieldP = 0.2
	}
	c.Offload = rng.Chance(0.2)
	c.Subnet4 = rng.Chance(0.2)
	b, _ := json.Marshal(c)
	return b
}

type echoReq struct {
	v6       bool
	src, dst tcpip.Address
	ident    uint16
	seq      uint16
	data     []byte
	own      bool
	answered int
	burst    int // burst id
}

var (
	peer4    = B4
	peer6    = B6
	foreign4 = tcpip.Address("\x0a\x00\x00\x4d")
	foreign6 = tcpip.Address("\xfd\x00\x00\x00\x00\x00\x00\x00\x00\x00\x00\x00\x00\x00\x00\x4d")
	bcast4   = tcpip.Address("\xff\xff\xff\xff")
	second4  = tcpip.Address("\x0a\x00\x00\x09") // a second address of the stack, added and removed during the run
	peer4b   = tcpip.Address("\x0a\x00\x00\x03") // a second requester on the link
)

type echoWorld struct {
	*PeerWorld
	reqs       []*echoReq
	nburst     int
	pending    map[int][]*echoReq // burst id -> own-address v4 requests of that burst
	second     bool               // second4 is currently assigned
	noA4       bool               // the primary address A4 is currently removed
	subnet4    bool               // the interface owns the IPv4 subnet 32.1.13.0/24
	faultsSeen int64
}

func echoPayload(seed uint64, ident, seq uint16, n int) []byte {
	b := make([]byte, n)
	for i := range b {
		b[i] = byte(sim.Mix(seed^uint64(ident)<<32^uint64(seq)<<16^uint64(i>>3)) >> (8 * uint(i&7)))
	}
	return b
}

func (w *echoWorld) request(flags int, ident, seq uint16, n int, wait bool, burst int) {
	v6 := flags&1 != 0
	dk := (flags >> 1) & 3
	frag := flags&8 != 0 && !v6
	mode := (flags >> 5) & 3
	if mode > 2 {
		mode = 0
	}
	mtu := int(w.S.Link.mtu)
	hdr := 28
	if v6 {
		hdr = 48
	}
	if n > mtu-hdr {
		n = mtu - hdr
	}
	if n < 0 {
		n = 0
	}
	r := &echoReq{v6: v6, ident: ident, seq: seq, data: echoPayload(w.seed, ident, seq, n), burst: burst}
	if v6 {
		r.src, r.dst = peer6, A6
		if dk != 0 {
			r.dst = foreign6
			if w.subnet4 {
				// an IPv6 address that is nobody's here - its first four bytes lie inside the interface's IPv4 subnet
				r.dst = tcpip.Address("\x20\x01\x0d\xb8\x00\x00\x00\x00\x00\x00\x00\x00\x00\x00\x00\x99")
				w.Probes["ipv6_requests_to_an_address_resembling_the_ipv4_subnet"]++
			}
		}
	} else {
		r.src = peer4
		switch dk {
		case 0:
			r.dst = A4
		case 1:
			r.dst = foreign4
		case 3:
			r.dst = second4
		default:
			r.dst = bcast4
		}
	}
	r.own = (r.dst == A4 && !w.noA4) || r.dst == A6 || (r.dst == second4 && w.second)
	if r.dst == second4 {
		w.Probes["requests_to_the_second_address"]++
	}
	w.reqs = append(w.reqs, r)
	msg := codec.EncodeEcho([]byte(r.src), []byte(r.dst), v6, false, ident, seq, r.data)
	if v6 {
		pkt := codec.IPv6([]byte(r.src), []byte(r.dst), codec.ProtoICMPv6, 64, msg)
		if wait {
			w.Inject6(pkt, mode)
		} else {
			w.InjectNoWait(w.S.Link, ipv6.ProtocolNumber, pkt, mode)
		}
		return
	}
	w.ipid++
	// IP options in front of the message and link-layer padding behind the datagram are the sender's and
	// the link's business: the request is the same request
	var opts, pad []byte
	if flags&128 != 0 {
		opts = [][]byte{codec.OptRecordRoute(1), codec.OptRouterAlert(), {1, 1, 1, 1}, codec.OptRecordRoute(3)}[int(ident)%4]
		w.Probes["requests_with_ip_options"]++
	}
	if flags&256 != 0 {
		pad = bytes.Repeat([]byte{0xee}, 1+int(seq)%26)
		w.Probes["requests_with_link_padding"]++
	}
	ip4 := func(src tcpip.Address, mf bool, off int, payload []byte) []byte {
		var b []byte
		if opts != nil {
			b = codec.IPv4Opts([]byte(src), []byte(r.dst), codec.ProtoICMP, w.ipid, 64, false, mf, off, opts, payload)
		} else {
			b = codec.IPv4([]byte(src), []byte(r.dst), codec.ProtoICMP, w.ipid, 64, false, mf, off, payload)
		}
		return append(b, pad...)
	}
	if frag && flags&1024 != 0 && len(msg) >= 160 {
		// the same request in 17-40 fragments (8, 16 or 24 bytes each), in order or reversed
		var frs [][]byte
		for off := 0; off < len(msg); {
			n := 8 * (1 + (off/8+int(seq))%3)
			if rem := (len(msg) - off) / 8; len(frs) < 16 && rem > 16-len(frs) {
				n = 8 // the first pieces are small, so that there are at least seventeen
			}
			if off+n >= len(msg) || len(frs) == 39 {
				n = len(msg) - off
			}
			frs = append(frs, ip4(r.src, off+n < len(msg), off, msg[off:off+n]))
			off += n
		}
		if seq%2 == 1 {
			for i, j := 0, len(frs)-1; i < j; i, j = i+1, j-1 {
				frs[i], frs[j] = frs[j], frs[i]
			}
		}
		for _, f := range frs {
			w.Inject4(f, 0)
		}
		w.Probes["fragmented_request"]++
		w.Probes["requests_in_seventeen_or_more_fragments"]++
		return
	}
	if frag && len(msg) > 16 {
		// two fragments, second first (ties into C08)
		cut := (len(msg) / 2) &^ 7
		if cut == 0 {
			cut = 8
		}
		a := ip4(r.src, true, 0, msg[:cut])
		b := ip4(r.src, false, cut, msg[cut:])
		w.Probes["fragmented_request"]++
		if flags&512 != 0 && r.dst == A4 {
			// a second requester, same IP identification, its fragments in between the first one's: two
			// requests, two replies, each mirroring its own request
			r2 := &echoReq{src: peer4b, dst: r.dst, ident: ident ^ 0x5555, seq: seq + 1, data: echoPayload(w.seed, ident^0x5555, seq+1, len(r.data)), burst: burst, own: r.own}
			w.reqs = append(w.reqs, r2)
			msg2 := codec.EncodeEcho([]byte(r2.src), []byte(r2.dst), false, false, r2.ident, r2.seq, r2.data)
			a2 := ip4(r2.src, true, 0, msg2[:cut])
			b2 := ip4(r2.src, false, cut, msg2[cut:])
			w.Probes["interleaved_fragments_of_two_requesters"]++
			w.Inject4(a, 0)
			w.Inject4(a2, 0)
			w.Inject4(b2, 0)
			w.Inject4(b, 0)
			return
		}
		w.Inject4(b, 0)
		w.Inject4(a, 0)
		return
	}
	pkt := ip4(r.src, false, 0, msg)
	if wait {
		w.Inject4(pkt, mode)
	} else {
		w.InjectNoWait(w.S.Link, ipv4.ProtocolNumber, pkt, mode)
	}
}

// collect matches every emitted frame against the requests.
func (w *echoWorld) collect() {
	for _, d := range w.Take() {
		if d.Err != nil {
			continue // reported by the monitor
		}
		if d.ICMP == nil {
			continue
		}
		isReply := (!d.IP.V6 && d.ICMP.Type == 0) || (d.IP.V6 && d.ICMP.Type == 129)
		if !isReply {
			continue
		}
		var match *echoReq
		for _, r := range w.reqs {
			if r.v6 == d.IP.V6 && r.ident == d.ICMP.Ident && r.seq == d.ICMP.Seq && bytes.Equal(r.data, d.ICMP.Data) &&
				sameAddr(d.IP.Src, string(r.dst)) && sameAddr(d.IP.Dst, string(r.src)) {
				// identical requests may have been sent while the address was and was not the
				// stack's: a reply is attributed to one it may answer, if there is any
				if match == nil || (r.own && !match.own) || (r.own == match.own && r.answered <= match.answered) {
					// (among equals the most recent one: replies come at once, an earlier identical
					// request that is still unanswered lost its reply to an injected fault)
					match = r
				}
			}
		}
		switch {
		case match == nil:
			w.Fail("unsolicited-reply", "", "echo reply ident=%d seq=%d len=%d from % x to % x corresponds to no request (identifier, sequence, payload, or addresses do not mirror one)", d.ICMP.Ident, d.ICMP.Seq, len(d.ICMP.Data), d.IP.Src, d.IP.Dst)
		case !match.own:
			w.Fail("answered-foreign", "", "echo request addressed to % x, which the stack does not own, was answered", []byte(match.dst))
		default:
			match.answered++
			if match.answered > 1 {
				w.Fail("answered-twice", "", "echo request ident=%d seq=%d was answered %d times", match.ident, match.seq, match.answered)
			}
		}
	}
}

func (w *echoWorld) apply(s Step) {
	switch s.Op {
	case "echo":
		w.nburst++
		w.request(s.A, uint16(s.B), uint16(s.C), int(s.D), true, w.nburst)
		w.Settle()
		w.collect()
		w.checkBurst(w.nburst)
	case "burst":
		w.nburst++
		for i := 0; i < s.C; i++ {
			w.request(s.A&^8, uint16(s.B), uint16(i), int(s.D), false, w.nburst)
		}
		w.Settle()
		w.collect()
		w.checkBurst(w.nburst)
		if s.C > 10 {
			w.Probes["burst_over_queue_capacity"]++
		}
	case "distract":
		// unsolicited replies and other ICMP types: must produce no echo reply
		switch s.A % 4 {
		case 0:
			w.InjectIP(false, peer4, A4, codec.ProtoICMP, codec.EncodeEcho([]byte(peer4), []byte(A4), false, true, uint16(s.B), 1, []byte("x")), 0)
		case 1:
			w.InjectIP(true, peer6, A6, codec.ProtoICMPv6, codec.EncodeEcho([]byte(peer6), []byte(A6), true, true, uint16(s.B), 1, []byte("x")), 0)
		case 2:
			w.InjectIP(false, peer4, A4, codec.ProtoICMP, codec.EncodeICMPv4(3, 3, 0, []byte{0x45, 0, 0, 20}), 0)
		case 3:
			w.InjectIP(false, peer4, A4, codec.ProtoICMP, codec.EncodeICMPv4(13, 0, 0, make([]byte, 12)), 0)
		}
		w.collect()
	case "reuseid":
		// a fragment of a request that is never completed; more than the reassembly timeout later the same requester
		// sends a complete fragmented request with the same IP identification: answered like any other
		w.ipid = uint16(0x7700 + s.A%64)
		lone := codec.EncodeEcho([]byte(peer4), []byte(A4), false, false, 0x6b6b, uint16(s.A), echoPayload(w.seed, 0x6b6b, uint16(s.A), 64))
		w.Inject4(codec.IPv4([]byte(peer4), []byte(A4), codec.ProtoICMP, w.ipid, 64, false, true, 0, lone[:32]), 0)
		w.Advance(time.Duration(31+s.B%20) * time.Second)
		w.collect()
		w.ipid-- // request() increments it first: the same identification again
		w.nburst++
		if !w.noA4 {
			w.request(8, uint16(0x4000+s.A), uint16(s.B), 200+s.A%100, true, w.nburst)
			w.Settle()
			w.collect()
			w.checkBurst(w.nburst)
			w.Probes["identification_of_an_abandoned_datagram_reused"]++
		}
	case "linkfault":
		// the device refuses the next frame(s): those replies are lost, the replier must go on serving
		w.S.Link.FailWrites = 1 + s.A%2
		w.Probes["link_write_faults_armed"]++
	case "addr":
		// assign or remove one of the stack's addresses: what it owns changes during the run
		if s.A%3 == 2 {
			// the primary address (with the second one possibly gone too, the interface then has no IPv4 address at all)
			if w.noA4 {
				if err := w.S.S.AddAddress(1, ipv4.ProtocolNumber, A4); err == nil {
					w.noA4 = false
					w.Probes["primary_address_added_again"]++
				}
			} else if err := w.S.S.RemoveAddress(1, A4); err == nil {
				w.noA4 = true
				w.Probes["primary_address_removed"]++
			}
			w.Settle()
			w.collect()
			break
		}
		if w.second {
			if err := w.S.S.RemoveAddress(1, second4); err == nil {
				w.second = false
				w.Probes["address_removed"]++
			}
		} else if err := w.S.S.AddAddress(1, ipv4.ProtocolNumber, second4); err == nil {
			w.second = true
			w.Probes["address_added"]++
		}
		w.Settle()
		w.collect()
	case "adv":
		w.Advance(time.Duration(s.D))
		w.collect()
	}
}

// checkBurst: while fewer than ten requests are pending every request is
// answered; with more pending at once at least ten are.
func (w *echoWorld) checkBurst(id int) {
	if f := w.Faults["link_write_error"]; f != w.faultsSeen {
		// a reply of this burst was refused by the device (injected): it is excused, later ones are not
		w.faultsSeen = f
		return
	}
	var own, ans int
	for _, r := range w.reqs {
		if r.burst == id && r.own {
			own++
			if r.answered > 0 {
				ans++
			}
		}
	}
	if own <= 10 && ans != own {
		w.Fail("request-not-answered", "", "%d echo request(s) to the stack's own address were pending at once (fewer than the queue of ten) but only %d were answered", own, ans)
	}
	if own > 10 && ans < 10 {
		w.Fail("request-not-answered", "", "%d echo requests were pending at once; at least ten must be answered but only %d were", own, ans)
	}
}

func (w *echoWorld) next() Step {
	r := w.Rng
	flags := 0
	if r.Chance(0.4) {
		flags |= 1
	}
	flags |= []int{0, 1, 2, 3}[r.Pick(6, 2, 1, 3)] << 1
	if r.Chance(0.15) {
		flags |= 8
	}
	flags |= r.Intn(3) << 5
	if r.Chance(0.15) {
		flags |= 128
	}
	if r.Chance(0.15) {
		flags |= 256
	}
	if r.Chance(0.4) {
		flags |= 512
	}
	if r.Chance(0.3) {
		flags |= 1024
	}
	lens := []int{0, 1, 2, 7, 8, 9, 55, 56, 57, 127, 128, 129, 1000, 1471, 1472, 1473, 8000, 65000}
	n := lens[r.Intn(len(lens))]
	if r.Chance(0.3) {
		n = r.Intn(2000)
	}
	ids := []int{0, 1, 255, 256, 0x7fff, 0x8000, 0xfffe, 0xffff}
	id, seq := ids[r.Intn(len(ids))], ids[r.Intn(len(ids))]
	if r.Chance(0.5) {
		id, seq = r.Intn(65536), r.Intn(65536)
	}
	switch r.Pick(10, 4, 2, 2, 2, 1, 1) {
	case 6:
		return Step{Op: "reuseid", A: r.Intn(64), B: r.Intn(20)}
	case 5:
		return Step{Op: "linkfault", A: r.Intn(2)}
	case 4:
		return Step{Op: "addr", A: r.Intn(3)}
	case 0:
		return Step{Op: "echo", A: flags, B: id, C: seq, D: int64(n)}
	case 1:
		if n > 1400 {
			n = r.Intn(1400)
		}
		return Step{Op: "burst", A: flags, B: id, C: r.Range(1, 30), D: int64(n)}
	case 2:
		return Step{Op: "distract", A: r.Intn(4), B: id}
	}
	return Step{Op: "adv", D: int64(time.Duration(r.Range(1, 5000)) * time.Millisecond)}
}

func (scEcho) Run(t *testing.T, prop string, seed uint64, cfgRaw json.RawMessage, steps []Step, tape []byte, trace bool) *RunOut {
	var cfg EchoCfg
	json.Unmarshal(cfgRaw, &cfg)
	o := &RunOut{Cfg: cfgRaw}
	bubble(t, func() {
		w := &echoWorld{PeerWorld: NewPeerWorld(seed, uint32(cfg.MTU), NodeOpts{Offload: cfg.Offload})}
		if cfg.Subnet4 {
			if sn, err := tcpip.NewSubnet("\x20\x01\x0d\x00", "\xff\xff\xff\x00"); err == nil {
				must(w.S.S.AddSubnet(1, ipv4.ProtocolNumber, sn), "AddSubnet")
				w.subnet4 = true
				w.S.Link.Addrs = nil // (an interface that owns a subnet answers from addresses beyond its assigned ones)
			}
		}
		if cfg.Offload {
			w.Mon.Offload = true
			w.Probes["links_declaring_checksum_offload"]++
		}
		defer w.Close()
		w.TraceOn = trace
		w.YieldP = cfg.YieldP
		if !w.subnet4 {
			w.S.Link.Addrs = append(w.S.Link.Addrs, second4)
		}
		if steps == nil {
			for i := 0; i < cfg.MaxSteps && w.Viol == nil; i++ {
				s := w.next()
				w.Steps = append(w.Steps, s)
				w.apply(s)
				w.NSteps++
			}
		} else {
			w.Replay, w.Tape = true, tape
			for _, s := range steps {
				w.apply(s)
				w.NSteps++
				if w.Viol != nil {
					break
				}
			}
			w.Steps = steps
		}
		if w.Viol == nil {
			w.Advance(time.Second)
			w.collect()
		}
		var answered int
		for _, r := range w.reqs {
			if r.answered > 0 {
				answered++
			}
		}
		w.Probes["requests"] += int64(len(w.reqs))
		w.Probes["answered"] += int64(answered)
		w.OnEmit = nil
		finish(w.World, o)
		if w.Replay {
			o.Tape = tape
		}
		o.Nontrivial = answered > 0
	})
	return o
}

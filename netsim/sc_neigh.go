package netsim

import (
	"bytes"
	"encoding/json"
	"testing"
	"time"

	"verif/netsim/codec"
	"verif/sim"

	"github.com/brewlin/net-protocol/pkg/waiter"
	tcpip "github.com/brewlin/net-protocol/protocol"
	"github.com/brewlin/net-protocol/protocol/network/arp"
	"github.com/brewlin/net-protocol/protocol/network/ipv4"
	"github.com/brewlin/net-protocol/protocol/network/ipv6"
	"github.com/brewlin/net-protocol/protocol/transport/udp"
)

// scNeigh: C12 - neighbour resolution: correct ARP/NDP answers, learning,
// waiting and failure. One stack on an Ethernet-like link that requires
// resolution; scripted neighbours answer, stay silent, answer late or change
// their link address.
type scNeigh struct{}

func init() {
	scenarios["neigh"] = scNeigh{}
	propScenario["C12"] = "neigh"
}

type NeighCfg struct {
	MaxSteps int     `json:"max_steps"`
	YieldP   float64 `json:"yield_p"`
	Many     bool    `json:"many_neighbours"`    // more than 512 distinct neighbours announce themselves
	Spoof    bool    `json:"spoofing,omitempty"` // the interface lets sockets send from addresses it does not own; one socket is bound to such an address
}

func (scNeigh) GenCfg(rng *sim.Rand, tier, prop, variant string) json.RawMessage {
	c := NeighCfg{MaxSteps: rng.Range(10, 100), Many: rng.Chance(0.1)}
	c.Spoof = rng.Chance(0.15)
	if rng.Chance(0.4) {
		c.YieldP = []float64{0.05, 0.3}[rng.Intn(2)]
	}
	b, _ := json.Marshal(c)
	return b
}

var (
	stackMAC = tcpip.LinkAddress("\x02\x00\x00\x00\x00\x01")
	bcastMAC = tcpip.LinkAddress("\xff\xff\xff\xff\xff\xff")
	gateway4 = tcpip.Address("\x0a\x00\x00\xfe")
	offLink4 = tcpip.Address("\xc0\xa8\x07\x07")
)

// neighbours 0..5 live in 10.0.0.0/24; neighbour 6 is the host 10.0.4.255 of the second on-link network
// 10.0.4.0/23 - an ordinary host address that happens to end in 255
func neighAddr(k int) tcpip.Address {
	if k == 6 {
		return tcpip.Address([]byte{10, 0, 4, 255})
	}
	return tcpip.Address([]byte{10, 0, 0, byte(2 + k)})
}

const nNeigh = 7

func onLink4(dst tcpip.Address) bool {
	return len(dst) == 4 && dst[0] == 10 && dst[1] == 0 && (dst[2] == 0 || dst[2]&0xfe == 4)
}
func neighMAC(k, gen int) tcpip.LinkAddress {
	return tcpip.LinkAddress([]byte{0x02, 0xaa, byte(gen), 0, 0, byte(2 + k)})
}

type mapping struct {
	mac tcpip.LinkAddress
	at  time.Duration
	seq int64 // order of delivery among the harness's events
}

type pendingSend struct {
	dst     tcpip.Address
	hop     tcpip.Address
	ch      <-chan struct{}
	payload []byte
	started time.Duration
	seq     int64 // harness event order at which the current wait began
	ep      tcpip.Endpoint
}

type neighWorld struct {
	*PeerWorld
	ep       tcpip.Endpoint
	cur      tcpip.Endpoint              // the socket the current send goes through
	epSpoof  tcpip.Endpoint              // (Spoof) a socket bound to spoofAddr, which is not an address of the interface
	maps     map[tcpip.Address][]mapping // every mapping delivered to the stack, in order
	gen      map[int]int                 // current MAC generation per neighbour
	reqTimes map[tcpip.Address][]time.Duration
	pending  []*pendingSend
	nsent    int
	flooded  bool
	f0       int64 // link write errors fired before the current step
	ep6      tcpip.Endpoint
	gen6     [3]int
	learned6 map[int]tcpip.LinkAddress
	lastNS6  [3]time.Duration // when a resolution of the IPv6 neighbour was last seen starting (+1 ns; 0 = never)
	ev       int64
	second   bool // neighSecond is currently assigned to the interface
}

var neighSecond = tcpip.Address("\x0a\x00\x00\x4d")

func (w *neighWorld) now() time.Duration { return time.Since(w.T0) }

func (w *neighWorld) bump() int64 { w.ev++; return w.ev }

// latest is the most recent mapping delivered for addr, if it is younger than 60 s.
func (w *neighWorld) latest(addr tcpip.Address) (mapping, bool) {
	m := w.maps[addr]
	if len(m) == 0 {
		return mapping{}, false
	}
	return m[len(m)-1], true
}

func (w *neighWorld) learn(addr tcpip.Address, mac tcpip.LinkAddress) {
	w.ev++
	w.maps[addr] = append(w.maps[addr], mapping{mac, w.now(), w.ev})
}

// observe checks every frame the stack emitted.
func (w *neighWorld) observe() {
	for _, d := range w.Take() {
		f := d.F
		if d.ARP != nil {
			a := d.ARP
			if a.Op == 1 {
				// a request of the stack: broadcast, own addresses as sender, spaced by at least 1 s, at most 3 per resolution
				tgt := tcpip.Address(a.TPA)
				if f.DstMAC != bcastMAC {
					w.Fail("request-not-broadcast", "", "ARP request for % x sent to link address % x, not to the broadcast address", a.TPA, []byte(f.DstMAC))
				}
				if !bytes.Equal(a.SHA, []byte(stackMAC)) || !(bytes.Equal(a.SPA, []byte(A4)) || w.epSpoof != nil && bytes.Equal(a.SPA, []byte(spoofAddr))) {
					w.Fail("request-wrong-sender", "", "ARP request carries sender % x / % x, the interface is % x / % x", a.SHA, a.SPA, []byte(stackMAC), []byte(A4))
				}
				ts := w.reqTimes[tgt]
				if n := len(ts); n > 0 && !w.flooded {
					gap := f.At - ts[n-1]
					if gap < time.Second && gap > 0 {
						w.Fail("requests-too-close", "", "two ARP requests for % x only %v apart (retry interval is about 1 s)", a.TPA, gap)
					}
				}
				w.reqTimes[tgt] = append(ts, f.At)
				// at most 3 within one resolution: count requests in the last 3.5 s window
				n := 0
				for _, t := range w.reqTimes[tgt] {
					if f.At-t < 3500*time.Millisecond {
						n++
					}
				}
				if n > 3 && !w.flooded {
					// (after a cache overflow evicted the unresolved entry a new resolution legitimately starts)
					w.Fail("too-many-requests", "", "%d ARP requests for % x within 3.5 s (retry budget is 3 attempts)", n, a.TPA)
				}
				w.Probes["arp_requests"]++
			}
			continue
		}
		if d.IP == nil || d.IP.V6 {
			continue
		}
		// an IPv4 data frame: its next hop must have been resolved
		dst := tcpip.Address(d.IP.Dst)
		hop := dst
		if len(dst) == 4 && !onLink4(dst) {
			hop = gateway4
		}
		if dst == "\xff\xff\xff\xff" {
			continue
		}
		m, ok := w.latest(hop)
		if ok && m.mac == "evicted?" {
			// a cache overflow may or may not have evicted the entry: the frame may use
			// the last real mapping, if that is still young enough
			ok = false
			ms := w.maps[hop]
			for i := len(ms) - 1; i >= 0; i-- {
				if ms[i].mac != "evicted?" {
					m, ok = ms[i], true
					break
				}
			}
		}
		switch {
		case !ok:
			w.Fail("sent-before-resolution", "", "IPv4 packet for % x (next hop % x) was put on the wire although no link address for that next hop was ever delivered to the stack", d.IP.Dst, []byte(hop))
		case f.At-m.at > 61*time.Second && !w.knownWithin(hop, f.DstMAC, f.At):
			w.Fail("expired-entry-used", "", "IPv4 packet for next hop % x sent to % x at %v; the last mapping for it was delivered at %v (entries live 60 s)", []byte(hop), []byte(f.DstMAC), f.At, m.at)
		case f.DstMAC != m.mac && !w.recentlyValid(hop, f.DstMAC, f.At):
			w.Fail("wrong-link-address", "", "IPv4 packet for next hop % x sent to link address % x; the mapping most recently delivered for it is % x", []byte(hop), []byte(f.DstMAC), []byte(m.mac))
		default:
			w.Probes["data_frames_after_resolution"]++
		}
		if f.SrcMAC != "" && f.SrcMAC != stackMAC {
			w.Fail("wrong-source-link-address", "", "frame sent from link address % x, the interface has % x", []byte(f.SrcMAC), []byte(stackMAC))
		}
	}
}

// recentlyValid: the frame was prepared with a mapping that was the latest one
// until less than a step ago (a reply and a send racing inside one step).
func (w *neighWorld) recentlyValid(hop tcpip.Address, mac tcpip.LinkAddress, at time.Duration) bool {
	m := w.maps[hop]
	for i := len(m) - 1; i >= 0 && i >= len(m)-2; i-- {
		if m[i].mac == mac && at-m[i].at <= 60*time.Second {
			return true
		}
	}
	return false
}

func (w *neighWorld) knownWithin(hop tcpip.Address, mac tcpip.LinkAddress, at time.Duration) bool {
	for _, m := range w.maps[hop] {
		if m.mac == mac && at-m.at <= 61*time.Second {
			return true
		}
	}
	return false
}

// arpFrom injects an ARP packet from neighbour k.
func (w *neighWorld) arpFrom(op uint16, sha tcpip.LinkAddress, spa, tpa tcpip.Address, tha tcpip.LinkAddress) {
	pkt := codec.EncodeARP(op, []byte(sha), []byte(spa), append([]byte(tha), make([]byte, 6)...)[:6], []byte(tpa))
	w.Inject(w.S.Link, arp.ProtocolNumber, pkt, sha, stackMAC, 0)
}

func (w *neighWorld) trySend(dst tcpip.Address, spoofed bool) {
	hop := dst
	if !onLink4(dst) {
		hop = gateway4
	}
	w.nsent++
	payload := dmPayload(w.seed, w.nsent)
	w.cur = w.ep
	if spoofed && w.epSpoof != nil {
		// a send from the socket bound to an address the interface does not own: resolved like any other
		w.cur = w.epSpoof
		w.Probes["sends_from_a_spoofed_source"]++
	}
	n, ch, err := w.cur.Write(tcpip.SlicePayload(append([]byte(nil), payload...)), tcpip.WriteOptions{To: &tcpip.FullAddress{Addr: dst, Port: 9000}})
	w.Settle()
	w.sendResult(dst, hop, payload, n, ch, err)
	w.observe()
}

var spoofAddr = tcpip.Address("\x0a\x00\x00\x4e")

// trySend2: two goroutines send to the same next hop at the same moment (for a neighbour not looked up before, two
// first lookups race); each is judged like a send of its own - both wait for the same answer, both are released
func (w *neighWorld) trySend2(dst tcpip.Address) {
	hop := dst
	if !onLink4(dst) {
		hop = gateway4
	}
	w.cur = w.ep
	type res struct {
		n       int64
		ch      <-chan struct{}
		err     *tcpip.Error
		payload []byte
	}
	var r [2]res
	done := make(chan int, 2)
	for i := 0; i < 2; i++ {
		w.nsent++
		r[i].payload = dmPayload(w.seed, w.nsent)
		i := i
		go func() {
			n, ch, err := w.ep.Write(tcpip.SlicePayload(append([]byte(nil), r[i].payload...)), tcpip.WriteOptions{To: &tcpip.FullAddress{Addr: dst, Port: 9000}})
			r[i].n, r[i].ch, r[i].err = int64(n), ch, err
			done <- i
		}()
	}
	w.Settle()
	<-done
	<-done
	w.Probes["two_sends_to_one_next_hop_at_the_same_moment"]++
	for i := 0; i < 2; i++ {
		w.sendResult(dst, hop, r[i].payload, uintptr(r[i].n), r[i].ch, r[i].err)
	}
	w.observe()
}

func (w *neighWorld) sendResult(dst, hop tcpip.Address, payload []byte, n uintptr, ch <-chan struct{}, err *tcpip.Error) {
	switch {
	case err == nil && int(n) == len(payload):
		w.Probes["sends_completed"]++
	case err == tcpip.ErrWouldBlock && ch != nil:
		w.pending = append(w.pending, &pendingSend{dst: dst, hop: hop, ch: ch, payload: payload, started: w.now(), seq: w.bump(), ep: w.cur})
		w.Probes["sends_waiting_for_resolution"]++
	case err == tcpip.ErrNoLinkAddress:
		// legal only if a resolution of this next hop failed: at least 3 s of requests without a usable answer
		ts := w.reqTimes[hop]
		if len(ts) == 0 {
			w.Fail("failed-without-trying", "", "Write to % x failed with no-link-address although the stack never sent a request for next hop % x", []byte(dst), []byte(hop))
		} else if m, ok := w.latest(hop); ok && m.mac != "evicted?" && w.now()-m.at < 59*time.Second && m.at > ts[len(ts)-1] && !w.flooded {
			// whatever a resolution came to, a mapping delivered after its last request (a late reply, an
			// announcement, the neighbour's own request) is what the stack knows now
			w.Fail("failed-despite-answer", "", "Write to % x failed at once with no-link-address although a mapping for next hop % x was delivered %v ago, after the last request the stack sent for it", []byte(dst), []byte(hop), w.now()-m.at)
		} else if age := w.now() - ts[len(ts)-1]; age > 61*time.Second && !w.flooded {
			// a failed resolution is a cached outcome like any other: it expires with its entry
			w.Fail("expired-entry-used", "", "Write to % x failed at once with no-link-address; the last request for next hop % x was sent %v ago, so the failed outcome it reports expired (entries live 60 s) and a new resolution was due", []byte(dst), []byte(hop), age)
		}
		w.Probes["sends_failed_no_link_address"]++
	}
}

// poll retries the sends whose resolution has finished one way or the other.
func (w *neighWorld) poll() {
	var still []*pendingSend
	for _, p := range w.pending {
		select {
		case <-p.ch:
		default:
			still = append(still, p)
			continue
		}
		_, ch, err := p.ep.Write(tcpip.SlicePayload(append([]byte(nil), p.payload...)), tcpip.WriteOptions{To: &tcpip.FullAddress{Addr: p.dst, Port: 9000}})
		w.Settle()
		switch {
		case err == nil:
			w.Probes["waiting_send_proceeded"]++
			if _, ok := w.latest(p.hop); !ok {
				w.Fail("sent-before-resolution", "", "a send waiting for next hop % x proceeded although no mapping was ever delivered", []byte(p.hop))
			}
		case err == tcpip.ErrNoLinkAddress:
			w.Probes["waiting_send_failed"]++
			// measured from the first request of the resolution it was waiting on
			// (a send may join a resolution that is already under way)
			ts := w.reqTimes[p.hop]
			t0 := w.now()
			for i := len(ts) - 1; i >= 0; i-- {
				if i < len(ts)-1 && t0-ts[i] > 1500*time.Millisecond {
					break
				}
				t0 = ts[i]
			}
			if el := w.now() - t0; el < 3*time.Second-time.Millisecond && !w.flooded {
				w.Fail("failed-too-early", "", "a send waiting for next hop % x failed with no-link-address only %v after the first request of the resolution (3 attempts, about 3 s)", []byte(p.hop), el)
			}
			if m, ok := w.latest(p.hop); ok && w.now()-m.at < 59*time.Second && m.seq > p.seq && m.mac != "evicted?" {
				w.Fail("failed-despite-answer", "", "a send waiting for next hop % x failed with no-link-address although a mapping was delivered %v ago, during the resolution", []byte(p.hop), w.now()-m.at)
			}
		case err == tcpip.ErrWouldBlock && ch != nil:
			// a new resolution has started (the previous outcome had expired)
			p.ch = ch
			p.started = w.now()
			p.seq = w.bump()
			still = append(still, p)
		}
	}
	w.pending = still
	w.observe()
	// a mapping delivered while a send waits for that next hop releases the waiter at once
	for _, p := range w.pending {
		if m, ok := w.latest(p.hop); ok && m.seq > p.seq && m.mac != "evicted?" && w.now()-m.at >= time.Second {
			select {
			case <-p.ch:
			default:
				w.Fail("waiter-not-woken-by-reply", "", "a send has been waiting for next hop % x since %v; a mapping for it was delivered at %v, yet %v later the waiter has not been notified", []byte(p.hop), p.started, m.at, w.now()-m.at)
			}
		}
	}
	// a send that has been waiting for more than 3 s + a step without any answer must have been released
	for _, p := range w.pending {
		if w.now()-p.started > 4500*time.Millisecond {
			if m, ok := w.latest(p.hop); !ok || m.seq < p.seq {
				select {
				case <-p.ch:
				default:
					w.Fail("waiter-never-released", "", "a send has been waiting %v for next hop % x, which never answered; the retry budget is 3 attempts of about 1 s", w.now()-p.started, []byte(p.hop))
				}
			}
		}
	}
}

func (w *neighWorld) apply(s Step) {
	w.f0 = w.Faults["link_write_error"]
	switch s.Op {
	case "send":
		dst := neighAddr(s.A % nNeigh)
		if s.B == 1 {
			dst = offLink4
		}
		if s.C == 1 {
			w.trySend2(dst)
		} else {
			w.trySend(dst, s.C == 2)
		}
	case "reply":
		// neighbour A (or the gateway if B==1) answers, optionally with a new link address
		k := s.A % nNeigh
		addr, mac := neighAddr(k), neighMAC(k, w.gen[k])
		if s.B == 1 {
			k = 250
			addr, mac = gateway4, neighMAC(250, w.gen[250])
		}
		if s.C == 1 {
			w.gen[k]++
			mac = neighMAC(k, w.gen[k])
			w.Probes["link_address_changed"]++
		}
		w.learn(addr, mac)
		switch s.D % 3 {
		case 0: // a reply addressed to the stack
			w.arpFrom(2, mac, addr, A4, stackMAC)
		case 1: // a gratuitous announcement (target = sender)
			w.arpFrom(2, mac, addr, addr, bcastMAC)
			w.Probes["gratuitous_replies"]++
		case 2: // a reply overheard, addressed to another host
			w.arpFrom(2, mac, addr, neighAddr((k+1)%6), neighMAC((k+1)%6, 0))
			w.Probes["overheard_replies"]++
		}
		w.observe()
		w.poll()
	case "request":
		// neighbour A asks for: 0 the stack's address, 1 a foreign address, 2 an unassigned address
		k := s.A % 6
		addr, mac := neighAddr(k), neighMAC(k, w.gen[k])
		tgt := A4
		switch s.B % 4 {
		case 1:
			tgt = neighAddr((k + 1) % 6)
		case 2:
			tgt = tcpip.Address("\x0a\x00\x00\x63")
		case 3:
			tgt = neighSecond
		}
		w.Take()
		own := tgt == A4 || (tgt == neighSecond && w.second)
		if own || w.epSpoof != nil {
			// requests addressed to the stack teach it the sender's mapping (under spoofing every target counts as the stack's)
			w.learn(addr, mac)
		}
		via := mac
		if s.C == 1 {
			// the request reaches the stack through a relay (bridge, proxy): the frame's source is the relay's
			// link address, the requester's own is in the ARP sender field - which is what a reply names as target
			via = tcpip.LinkAddress("\x02\xee\x00\x00\x00\x09")
			w.Inject(w.S.Link, arp.ProtocolNumber, codec.EncodeARP(1, []byte(mac), []byte(addr), make([]byte, 6), []byte(tgt)), via, stackMAC, 0)
			w.Probes["arp_requests_through_a_relay"]++
		} else {
			w.arpFrom(1, mac, addr, tgt, "")
		}
		var replies []*codec.ARP
		var frames []*Frame
		for _, d := range w.Seen {
			if d.ARP != nil && d.ARP.Op == 2 {
				replies = append(replies, d.ARP)
				frames = append(frames, d.F)
			}
		}
		if tgt == neighSecond {
			w.Probes["requests_for_the_second_address"]++
		}
		if own {
			w.Probes["requests_for_own_address"]++
			if len(replies) != 1 && w.Faults["link_write_error"] != w.f0 {
				w.Probes["reply_refused_by_the_device"]++ // injected: excused
			} else if len(replies) != 1 {
				w.Fail("request-not-answered", "", "ARP request for the stack's own address % x drew %d replies", []byte(tgt), len(replies))
			} else {
				r := replies[0]
				if !bytes.Equal(r.SHA, []byte(stackMAC)) || !bytes.Equal(r.SPA, []byte(tgt)) {
					w.Fail("reply-wrong-content", "", "ARP reply says % x is at % x; the interface's link address is % x", r.SPA, r.SHA, []byte(stackMAC))
				}
				if !bytes.Equal(r.TPA, []byte(addr)) || !bytes.Equal(r.THA, []byte(mac)) || frames[0].DstMAC != via {
					w.Fail("reply-wrong-addressee", "", "ARP reply addressed to % x / % x (frame to % x), the requester is % x / % x (its frame came from % x)", r.TPA, r.THA, []byte(frames[0].DstMAC), []byte(addr), []byte(mac), []byte(via))
				}
			}
		} else {
			w.Probes["requests_for_other_address"]++
			if w.epSpoof != nil {
				// (an interface that lends itself to any source address also speaks for any target; which addresses are
				// "its own" then is not something the statement settles - not judged)
				w.Probes["requests_for_other_address_under_spoofing"]++
			} else if len(replies) != 0 {
				w.Fail("answered-for-someone-else", "", "ARP request for % x, which is not one of the stack's addresses, was answered", []byte(tgt))
			}
		}
		w.observe()
		w.poll()
	case "ns":
		// IPv6 neighbour solicitation for the stack's address (0) or another (1)
		tgt := A6
		switch s.A % 3 {
		case 1:
			tgt = foreign6
		case 2:
			// a foreign address that shares the stack's solicited-node group (same low 24 bits)
			tgt = tcpip.Address("\x20\x01\x0d\xb8\x00\x00\x00\x00\x00\x00\x00\x00\x00\x00\x00\x01")
		}
		dst := A6
		if s.B%2 == 1 {
			dst = solicitedNode(tgt) // as real neighbour discovery sends it
			w.Probes["solicitations_to_multicast_group"]++
		}
		body := append(append([]byte(nil), []byte(tgt)...), 1, 1, 2, 0xbb, 0, 0, 0, 9)
		w.Take()
		msg := codec.EncodeICMPv6([]byte(B6), []byte(dst), 135, 0, 0, body)
		w.Inject(w.S.Link, ipv6.ProtocolNumber, codec.IPv6([]byte(B6), []byte(dst), codec.ProtoICMPv6, 255, msg), "\x02\xbb\x00\x00\x00\x09", stackMAC, 0)
		na := 0
		for _, d := range w.Seen {
			if d.ICMP != nil && d.IP.V6 && d.ICMP.Type == 136 {
				na++
				if len(d.ICMP.Body) < 20 || !bytes.Equal(d.ICMP.Body[4:20], []byte(tgt)) {
					w.Fail("reply-wrong-content", "", "neighbour advertisement does not carry the solicited target")
				} else if len(d.ICMP.Body) >= 28 && !bytes.Equal(d.ICMP.Body[22:28], []byte(stackMAC)) {
					w.Fail("reply-wrong-content", "", "neighbour advertisement carries link address % x, the interface has % x", d.ICMP.Body[22:28], []byte(stackMAC))
				}
			}
		}
		if tgt == A6 && na != 1 && w.Faults["link_write_error"] != w.f0 {
			w.Probes["reply_refused_by_the_device"]++
		} else if tgt == A6 && na != 1 {
			w.Fail("request-not-answered", "", "neighbour solicitation for the stack's own address drew %d advertisements", na)
		}
		if tgt != A6 && na != 0 && w.epSpoof == nil {
			w.Fail("answered-for-someone-else", "", "neighbour solicitation for a foreign address was answered")
		}
		w.Probes["neighbour_solicitations"]++
		w.Take()
	case "flood":
		// hundreds of distinct hosts announce themselves: the cache ring wraps
		n := int(s.D)
		if n <= 0 {
			n = 600
		}
		for i := 0; i < n; i++ {
			a := tcpip.Address([]byte{10, 0, byte(1 + i/250), byte(1 + i%250)})
			m := tcpip.LinkAddress([]byte{2, 0xcc, 0, byte(i >> 8), byte(i), 1})
			pkt := codec.EncodeARP(2, []byte(m), []byte(a), []byte(stackMAC), []byte(A4))
			w.InjectNoWait(w.S.Link, arp.ProtocolNumber, pkt, 0)
		}
		w.Settle()
		// everything on-link learned before the flood may have been evicted: forget it in the reference too
		for k := range w.maps {
			w.maps[k] = append(w.maps[k], mapping{mac: "evicted?", at: -time.Hour})
		}
		w.Probes["cache_ring_wrapped"]++
		w.flooded = true
		w.observe()
	case "send6":
		w.send6(s)
	case "creconn":
		// one socket connected to one on-link neighbour, then to another: each datagram goes to the link
		// address of its own next hop (judged by observe, like every data frame)
		k1, k2 := s.A%6, s.B%6
		fresh := func(k int) bool {
			m, ok := w.latest(neighAddr(k))
			return ok && m.mac != "evicted?" && w.now()-m.at < 50*time.Second
		}
		if k1 == k2 || w.flooded || !fresh(k1) || !fresh(k2) {
			break
		}
		ep, err := w.S.S.NewEndpoint(udp.ProtocolNumber, ipv4.ProtocolNumber, &waiter.Queue{})
		must(err, "udp endpoint")
		for _, k := range []int{k1, k2} {
			if e := ep.Connect(tcpip.FullAddress{Addr: neighAddr(k), Port: 9000}); e != nil {
				break
			}
			w.nsent++
			ep.Write(tcpip.SlicePayload(dmPayload(w.seed, w.nsent)), tcpip.WriteOptions{})
			w.Settle()
		}
		w.Probes["socket_connected_to_one_neighbour_after_another"]++
		w.observe()
		ep.Close()
		w.Settle()
	case "addr":
		// a second address of the interface comes and goes: requests for it are answered exactly while it is assigned
		if w.second {
			w.S.S.RemoveAddress(1, neighSecond)
			w.Probes["second_address_removed"]++
		} else {
			w.S.S.AddAddress(1, ipv4.ProtocolNumber, neighSecond)
			w.Probes["second_address_added"]++
		}
		w.second = !w.second
	case "linkfault":
		// the device refuses the next frame(s): a refused resolution request is a lost request, no more
		w.S.Link.FailWrites = 1 + s.A%2
		w.Probes["link_write_faults_armed"]++
	case "adv":
		w.Advance(time.Duration(s.D))
		w.observe()
		w.poll()
	}
}

func neigh6(k int) tcpip.Address {
	b := []byte(A6)
	b[15] = byte(0x20 + k)
	return tcpip.Address(b)
}

// send6: a datagram to an IPv6 neighbour. The stack solicits the neighbour; the
// neighbour advertises itself - with the target link-layer address option alone
// or behind another option - and the datagram must then
// go to the link address the advertisement came from.
func (w *neighWorld) send6(s Step) {
	k := s.A % 3
	dst := neigh6(k)
	mac := tcpip.LinkAddress([]byte{2, 0x66, 0, 0, byte(w.gen6[k]), byte(k)})
	if w.ep6 == nil {
		return
	}
	w.Take()
	w.nsent++
	payload := dmPayload(w.seed, 100000+w.nsent)
	write := func() (*tcpip.Error, <-chan struct{}) {
		_, ch, err := w.ep6.Write(tcpip.SlicePayload(append([]byte(nil), payload...)), tcpip.WriteOptions{To: &tcpip.FullAddress{Addr: dst, Port: 9000}})
		w.Settle()
		return err, ch
	}
	f0 := w.Faults["link_write_error"]
	err, ch := write()
	if w.Faults["link_write_error"] != f0 {
		w.Probes["send6_hit_a_link_fault"]++
		w.lastNS6[k] = w.now() + 1 // (a resolution is under way: its first solicitation was refused)
		return                     // the solicitation (or the datagram) was refused by the device: the retry comes a second later, not judged here
	}
	if err == tcpip.ErrWouldBlock && ch != nil {
		// answer the solicitation
		solicited := false
		for _, d := range w.Take() {
			if d.ICMP != nil && d.IP != nil && d.IP.V6 && d.ICMP.Type == 135 && len(d.ICMP.Body) >= 20 && bytes.Equal(d.ICMP.Body[4:20], []byte(dst)) {
				solicited = true
			}
		}
		if solicited {
			w.lastNS6[k] = w.now() + 1
		}
		if !solicited && w.lastNS6[k] != 0 && w.now()+1-w.lastNS6[k] < 3500*time.Millisecond {
			w.Probes["send6_joined_a_resolution_under_way"]++
			return
		}
		if !solicited {
			w.Fail("request-not-broadcast", "", "a send to IPv6 neighbour % x waits for resolution but no neighbour solicitation for it was emitted", []byte(dst))
			return
		}
		if s.C%4 == 3 {
			// the neighbour has a new link address this time
			w.gen6[k]++
			mac = tcpip.LinkAddress([]byte{2, 0x66, 0, 0, byte(w.gen6[k]), byte(k)})
		}
		body := append([]byte(nil), []byte(dst)...)
		tlla := append([]byte{2, 1}, []byte(mac)...)
		other := []byte{14, 1, 0xde, 0xad, 0xbe, 0xef, 0x00, 0x01} // a nonce option (RFC 3971), 8 bytes
		// (an advertisement answering a multicast solicitation always carries the target
		// link-layer address option, RFC 4861 4.4: one without it may be ignored and is not sent)
		switch s.B % 2 {
		case 0:
			body = append(body, tlla...)
		case 1:
			body = append(append(body, other...), tlla...)
			w.Probes["advertisement_with_another_option_first"]++
		}
		from := dst
		if s.C%3 == 2 {
			// the advertisement for the target comes from another address of the neighbour's interface (its link-local one)
			from = tcpip.Address("\xfe\x80\x00\x00\x00\x00\x00\x00\x00\x00\x00\x00\x00\x00\x00" + string([]byte{byte(0x20 + k)}))
			w.Probes["advertisement_from_another_address"]++
		}
		msg := codec.EncodeICMPv6([]byte(from), []byte(A6), 136, 0, 0x60000000, body)
		w.Inject(w.S.Link, ipv6.ProtocolNumber, codec.IPv6([]byte(from), []byte(A6), codec.ProtoICMPv6, 255, msg), mac, stackMAC, 0)
		w.learned6[k] = mac
		select {
		case <-ch:
		default:
			w.Fail("waiter-not-woken-by-reply", "", "a send waits for IPv6 neighbour % x; its advertisement arrived and the waiter was not notified", []byte(dst))
			return
		}
		err, _ = write()
	}
	if err != nil {
		w.Probes["send6_failed"]++
		return
	}
	for _, d := range w.Take() {
		if d.UDP != nil && d.IP.V6 && bytes.Equal(d.UDP.Payload, payload) {
			want, known := w.learned6[k]
			switch {
			case !known:
				w.Fail("sent-before-resolution", "", "IPv6 datagram for neighbour % x was put on the wire although that neighbour never advertised itself", []byte(dst))
			case d.F.DstMAC != want:
				w.Fail("wrong-link-address", "", "IPv6 datagram for neighbour % x sent to link address % x; its advertisement came from % x", []byte(dst), []byte(d.F.DstMAC), []byte(want))
			default:
				w.Probes["ipv6_data_frames_after_resolution"]++
			}
		}
	}
}

func (w *neighWorld) next(cfg NeighCfg) Step {
	r := w.Rng
	switch r.Pick(8, 6, 4, 2, 8, 1, 3, 1, 1, 1) {
	case 8:
		return Step{Op: "creconn", A: r.Intn(6), B: r.Intn(6)}
	case 9:
		return Step{Op: "addr"}
	case 7:
		return Step{Op: "linkfault", A: r.Intn(2)}
	case 6:
		return Step{Op: "send6", A: r.Intn(3), B: r.Intn(3), C: r.Intn(6)}
	case 0:
		return Step{Op: "send", A: r.Intn(nNeigh), B: r.Pick(4, 1), C: r.Pick(5, 1, 2)}
	case 1:
		return Step{Op: "reply", A: r.Intn(nNeigh), B: r.Pick(5, 1), C: r.Pick(5, 1), D: int64(r.Pick(6, 2, 1))}
	case 2:
		return Step{Op: "request", A: r.Intn(6), B: r.Intn(4), C: r.Pick(4, 1)}
	case 3:
		return Step{Op: "ns", A: r.Intn(3), B: r.Intn(2)}
	case 4:
		ds := []int{100, 500, 999, 1000, 1001, 2000, 2999, 3000, 3001, 10000, 59000, 61000}
		return Step{Op: "adv", D: int64(time.Duration(ds[r.Intn(len(ds))]) * time.Millisecond)}
	}
	if cfg.Many {
		// sizes around the cache capacity: the ring wraps onto some slots and not others
		return Step{Op: "flood", D: int64([]int{100, 400, 495, 500, 505, 508, 510, 511, 512, 513, 520, 600}[r.Intn(12)])}
	}
	return Step{Op: "adv", D: int64(time.Duration(r.Range(1, 70000)) * time.Millisecond)}
}

func (scNeigh) Run(t *testing.T, prop string, seed uint64, cfgRaw json.RawMessage, steps []Step, tape []byte, trace bool) *RunOut {
	var cfg NeighCfg
	json.Unmarshal(cfgRaw, &cfg)
	o := &RunOut{Cfg: cfgRaw}
	bubble(t, func() {
		w := &neighWorld{PeerWorld: NewPeerWorld(seed, 1500, NodeOpts{Resolution: true, MAC: stackMAC}), maps: map[tcpip.Address][]mapping{}, gen: map[int]int{}, reqTimes: map[tcpip.Address][]time.Duration{}}
		defer w.Close()
		w.TraceOn = trace
		w.YieldP = cfg.YieldP
		w.OnLinkError = func(f *Frame) {
			// a resolution request the device refused is an attempt all the same
			if f.Proto == arp.ProtocolNumber {
				if a, err := codec.DecodeARP(f.Data); err == nil && a.Op == 1 {
					tgt := tcpip.Address(a.TPA)
					w.reqTimes[tgt] = append(w.reqTimes[tgt], f.At)
					w.Probes["requests_refused_by_the_device"]++
				}
			}
		}
		w.S.S.SetRouteTable([]tcpip.Route{
			{Destination: "\x0a\x00\x00\x00", Mask: "\xff\xff\xff\x00", NIC: 1},
			{Destination: "\x0a\x00\x04\x00", Mask: "\xff\xff\xfe\x00", NIC: 1},
			{Destination: "\x00\x00\x00\x00", Mask: "\x00\x00\x00\x00", Gateway: gateway4, NIC: 1},
			{Destination: tcpip.Address(make([]byte, 16)), Mask: tcpip.AddressMask(make([]byte, 16)), NIC: 1},
		})
		// the stack listens on the solicited-node multicast group of its IPv6 address, as neighbour discovery requires
		must(w.S.S.AddAddress(1, ipv6.ProtocolNumber, solicitedNode(A6)), "solicited-node address")
		ep, err := w.S.S.NewEndpoint(udp.ProtocolNumber, ipv4.ProtocolNumber, &waiter.Queue{})
		must(err, "udp endpoint")
		must(ep.Bind(tcpip.FullAddress{Addr: A4, Port: 4000}, nil), "bind")
		w.ep = ep
		if cfg.Spoof {
			must(w.S.S.SetSpoofing(1, true), "spoofing")
			eps, err := w.S.S.NewEndpoint(udp.ProtocolNumber, ipv4.ProtocolNumber, &waiter.Queue{})
			must(err, "udp endpoint")
			if eps.Bind(tcpip.FullAddress{Addr: spoofAddr, Port: 4001}, nil) == nil {
				w.epSpoof = eps
				w.S.Link.Addrs = nil // (C06: an interface that lends itself to any source address - the source-address clause is not judged on it)
				w.Probes["sockets_bound_to_an_address_the_interface_does_not_own"]++
			} else {
				eps.Close()
			}
		}
		if ep6, err := w.S.S.NewEndpoint(udp.ProtocolNumber, ipv6.ProtocolNumber, &waiter.Queue{}); err == nil {
			if ep6.Bind(tcpip.FullAddress{Addr: A6, Port: 4006}, nil) == nil {
				w.ep6, w.learned6 = ep6, map[int]tcpip.LinkAddress{}
			}
		}
		w.Settle()
		if steps == nil {
			for i := 0; i < cfg.MaxSteps && w.Viol == nil; i++ {
				s := w.next(cfg)
				w.Steps = append(w.Steps, s)
				w.apply(s)
				w.NSteps++
			}
		} else {
			for _, s := range steps {
				w.apply(s)
				w.NSteps++
				if w.Viol != nil {
					break
				}
			}
			w.Steps = steps
		}
		if w.Viol == nil {
			w.Advance(5 * time.Second)
			w.observe()
			w.poll()
		}
		w.OnEmit = nil
		w.ep.Close()
		if w.ep6 != nil {
			w.ep6.Close()
		}
		w.Advance(5 * time.Second)
		finish(w.World, o)
		if w.Replay {
			o.Tape = tape
		}
		o.Nontrivial = w.Probes["data_frames_after_resolution"] > 0 && w.Probes["arp_requests"] > 0
	})
	return o
}

// solicitedNode is the RFC 4291 solicited-node multicast address of a.
func solicitedNode(a tcpip.Address) tcpip.Address {
	return tcpip.Address("\xff\x02\x00\x00\x00\x00\x00\x00\x00\x00\x00\x01\xff" + string(a[13:]))
}

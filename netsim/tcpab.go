package netsim

import (
	"fmt"
	"time"

	"verif/sim"

	"github.com/brewlin/net-protocol/pkg/buffer"
	"github.com/brewlin/net-protocol/pkg/rand"
	"github.com/brewlin/net-protocol/pkg/waiter"
	tcpip "github.com/brewlin/net-protocol/protocol"
	"github.com/brewlin/net-protocol/protocol/network/ipv4"
	"github.com/brewlin/net-protocol/protocol/network/ipv6"
	"github.com/brewlin/net-protocol/protocol/transport/tcp"
)

// TCP between two real stacks joined by the adversarial wire: the world of
// C01 (stream oracle), C02 (completion/close/liveness oracle) and the
// behavioural half of C14 (forced ISS placement).

// ABCfg is the swarm configuration of one run (drawn from the seed, recorded
// in the replay file).
type ABCfg struct {
	V6          bool    `json:"v6"`
	SackA       bool    `json:"sack_a"`
	SackB       bool    `json:"sack_b"`
	CC          string  `json:"cc"`
	MTU         int     `json:"mtu"`
	SndBuf      int     `json:"sndbuf"`
	RcvBufA     int     `json:"rcvbuf_a"`
	RcvBufB     int     `json:"rcvbuf_b"`
	NConn       int     `json:"nconn"`
	Bytes       []int   `json:"bytes"`                   // per connection and direction: planned bytes [c*2+d]
	ISSMode     int     `json:"iss_mode"`                // 0 random, 1 active just below 2^31, 2 active just below 2^32, 3/4 passive likewise
	ISSBack     int     `json:"iss_back"`                // how far below the boundary
	ISSMid      bool    `json:"iss_mid_space,omitempty"` // the neutral twin of a C14 run
	KPassive    uint32  `json:"k_passive"`               // measured cookie constant (passive ISS - active ISS), filled by the pre-pass
	Drop        float64 `json:"drop"`
	Dup         float64 `json:"dup"`
	Reorder     float64 `json:"reorder"`
	Stale       float64 `json:"stale"`
	Delay       float64 `json:"delay"`
	WriteErr    float64 `json:"link_write_error,omitempty"`
	Budget      int     `json:"fault_budget"`
	YieldP      float64 `json:"yield_p"`
	MaxSteps    int     `json:"max_steps"`
	CloseMix    int     `json:"close_mix"` // 0 shutdown-only, 1 also Close, 2 also abrupt close
	Stalls      bool    `json:"reader_stalls"`
	Gated       bool    `json:"writers_wait_for_writability,omitempty"` // a writer that found the send buffer full writes again only after the stack has signalled EventOut
	DropOnly    bool    `json:"drop_only"`                              // C02's fault model: drops of non-RST packets only, no network delay
	ServerFirst bool    `json:"server_speaks_first,omitempty"`          // the client writes nothing and does not shut down before it has read the server's end-of-stream
	DropIDs     []int   `json:"drop_frames,omitempty"`                  // fault positions chosen up front: the n-th emissions of the run are lost
	MeasureK    bool    `json:"-"`
}

// abOut is the writability callback of one side: the stack says "there is room again".
type abOut struct{ s *abSide }

func (o abOut) Callback(*waiter.Entry) { o.s.outSeen = true }

type abSide struct {
	outEntry      waiter.Entry
	outSeen       bool // EventOut has been signalled since the last Write that found the send buffer full
	wblocked      bool // the last Write found the send buffer full (returned would-block or took only part)
	ep            tcpip.Endpoint
	wq            *waiter.Queue
	accepted      int64 // bytes accepted by Write
	target        int64
	shutW         bool
	closed        bool // Close called: endpoint gone from the application's view
	read          int64
	eof           bool
	hardErr       *tcpip.Error
	stallTil      int // reader does not read before this step
	closeAt       time.Duration
	shutAt        time.Duration
	unreadAtClose bool
	quietClose    bool        // Close found nothing unread and nothing on its way: all that is left is the closing handshake
	ch            chan func() // operations posted to this side's application goroutine
}

// async posts f to the side's application goroutine without waiting: it runs
// when the simulator next blocks, interleaved (at the seeded yield points) with
// the protocol goroutines and the other application.
func (s *abSide) async(f func()) {
	if s.ch == nil {
		s.ch = make(chan func(), 64)
		ch := s.ch
		go func() {
			for g := range ch {
				g()
			}
		}()
	}
	select {
	case s.ch <- f:
	default:
	}
}

type abConn struct {
	id                  int
	port                uint16     // client port
	s                   [2]*abSide // 0 = client (node A), 1 = server side (node B), nil until accepted
	connected           bool
	connErr             *tcpip.Error
	startedAt           time.Duration // when the client called Connect
	clientAcksDelivered int           // segments of the client other than its SYN that reached the passive side
	clientAcksTried     int           // ... that the client sent (whether or not the device or the wire let them through)
	synAcksDelivered    int           // SYN-ACKs that reached the client (each one is owed an ACK)
	phantoms            int           // further connections the listener handed out for this client port (finding F11)
	unclean             bool          // an application closed a side while data was still owed in either direction: errors may be legitimate
	started             bool
	iss                 [2]uint32
	haveISS             [2]bool
	maxEnd              [2]uint32
	haveMax             [2]bool
	nxt                 [2]uint32 // highest sequence number sent (+SYN/FIN), i.e. SND.NXT as seen on the wire
	haveNxt             [2]bool
	rstSent             [2]int // resets emitted by this side
	rstStale            [2]int // ... whose sequence number was below SND.NXT
	rstLost             [2]int // ... dropped by the wire
	rstDeliv            [2]int
	lastWin             [2]int   // window field of the last segment delivered TO this side (-1 none)
	sentWin             [2]int   // window field of the last non-RST segment emitted BY this side (-1 none)
	lateAck             uint32   // seq of the last bare ACK delivered to B before the app accepted, minus (client ISS+1)
	lateAcks            []uint32 // ... of every distinct one
	winDropped          [2]bool  // the last window-bearing segment sent to this side was dropped
}

type ABWorld struct {
	*World
	Cfg             ABCfg
	N               [2]*Node
	lep             tcpip.Endpoint
	placed          uint32 // the initial sequence number queued for connection 0 ...
	havePlaced      bool
	PlacementMissed bool // ... and whether somebody else drew it
	lwq             *waiter.Queue
	conns           []*abConn
	phantoms        int
	fc              *FaultCfg
	seed            uint64
	lostDuringClose bool
	wrapCrossed     [2]bool
	inAsync         int
	asyncOps        int
	pendingAsync    int
	stormed         bool
}

const abPort = 8080

func abByte(seed uint64, c, d int, i int64) byte {
	return byte(sim.Mix(seed^uint64(c)<<40^uint64(d)<<36^uint64(i>>3)) >> (8 * uint(i&7)))
}

// GenABCfg draws a configuration.
func GenABCfg(rng *sim.Rand, tier string, prop string) ABCfg {
	c := ABCfg{V6: rng.Chance(0.3), SackA: rng.Chance(0.5), SackB: rng.Chance(0.5), CC: "reno"}
	if rng.Chance(0.35) {
		c.CC = "cubic"
	}
	mtus := []int{68, 128, 296, 576, 1280, 1500, 1500, 4000, 9000}
	c.MTU = mtus[rng.Intn(len(mtus))]
	if c.V6 && c.MTU < 1280 {
		c.MTU = 1280
	}
	bufs := []int{0, 0, 1 << 20, 65536, 16384, 4096, 2048, 1024}
	c.SndBuf = bufs[rng.Intn(len(bufs))]
	c.RcvBufA = bufs[rng.Intn(len(bufs))]
	c.RcvBufB = bufs[rng.Intn(len(bufs))]
	c.NConn = rng.Pick(6, 3, 1) + 1
	maxBytes := 60000
	if tier == "thorough" {
		maxBytes = 400000
	}
	for i := 0; i < c.NConn*2; i++ {
		switch rng.Pick(2, 5, 3) {
		case 0:
			c.Bytes = append(c.Bytes, 0)
		case 1:
			c.Bytes = append(c.Bytes, rng.Range(1, 6000))
		default:
			c.Bytes = append(c.Bytes, rng.Range(1, maxBytes))
		}
	}
	if c.MTU <= 128 {
		// (with timestamps and SACK blocks a 68-byte path leaves one byte of payload per segment - finding
		// F17: a transfer of hundreds of kilobytes would be hundreds of thousands of frames in one instant)
		// (the bound is on the run: 100 000 bytes over all directions of all connections, acknowledgements come on top)
		lim := 50000 / c.NConn
		for i := range c.Bytes {
			if c.Bytes[i] > lim {
				c.Bytes[i] = lim
			}
		}
	}
	c.ISSMode = rng.Pick(5, 1, 1, 1, 1)
	c.ISSBack = rng.Intn(4000)
	if rng.Chance(0.3) {
		c.ISSBack = rng.Intn(8)
	}
	if rng.Chance(0.75) {
		c.Drop = []float64{0.01, 0.03, 0.08, 0.2}[rng.Intn(4)]
		c.Dup = []float64{0, 0.02, 0.1}[rng.Intn(3)]
		c.Reorder = []float64{0, 0.05, 0.25}[rng.Intn(3)]
		c.Stale = []float64{0, 0.01, 0.05}[rng.Intn(3)]
		c.Delay = []float64{0, 0.02, 0.1}[rng.Intn(3)]
		c.WriteErr = []float64{0, 0, 0.02, 0.05}[rng.Intn(4)]
		c.Budget = []int{3, 10, 40, 200, 1000}[rng.Intn(5)]
	}
	if rng.Chance(0.5) {
		c.YieldP = []float64{0.02, 0.1, 0.3}[rng.Intn(3)]
	}
	c.MaxSteps = 600
	if tier == "thorough" {
		c.MaxSteps = 3000
	}
	c.CloseMix = rng.Pick(5, 3, 2)
	c.Stalls = rng.Chance(0.3)
	c.Gated = rng.Chance(0.5)
	if rng.Chance(0.03) {
		// scaled windows that really close: receive buffers above 64 KB whose size is no multiple of the
		// scale unit, transfers several times as long, readers that pause
		odd := []int{66000, 70001, 100003, 131071, 655350}
		c.RcvBufA, c.RcvBufB = odd[rng.Intn(len(odd))], odd[rng.Intn(len(odd))]
		c.Stalls = true
		if c.MTU < 1280 {
			c.MTU = 1500
		}
		for i := range c.Bytes {
			if rng.Chance(0.6) {
				c.Bytes[i] = rng.Range(150000, 300000)
			}
		}
		c.MaxSteps = 4 * c.MaxSteps
	}
	return c
}

func (w *ABWorld) net() tcpip.NetworkProtocolNumber {
	if w.Cfg.V6 {
		return ipv6.ProtocolNumber
	}
	return ipv4.ProtocolNumber
}

func (w *ABWorld) addr(n int) tcpip.Address {
	if w.Cfg.V6 {
		return []tcpip.Address{A6, B6}[n]
	}
	return []tcpip.Address{A4, B4}[n]
}

// NewABWorld builds both stacks and the listener on B.
func NewABWorld(seed uint64, cfg ABCfg) *ABWorld {
	w := &ABWorld{World: NewWorld(seed), Cfg: cfg, seed: seed}
	rand.VerifSeed(sim.Mix(seed ^ 0x7a5d))
	ipv4.VerifReset()
	w.YieldP = cfg.YieldP
	w.N[0] = w.NewNode("A", uint32(cfg.MTU), A4, A6, 1, NodeOpts{SACK: cfg.SackA, CC: cfg.CC, SndBuf: cfg.SndBuf, RcvBuf: cfg.RcvBufA})
	w.N[1] = w.NewNode("B", uint32(cfg.MTU), B4, B6, 0, NodeOpts{SACK: cfg.SackB, CC: cfg.CC, SndBuf: cfg.SndBuf, RcvBuf: cfg.RcvBufB})
	w.lwq = &waiter.Queue{}
	ep, err := w.N[1].S.NewEndpoint(tcp.ProtocolNumber, w.net(), w.lwq)
	must(err, "listener NewEndpoint")
	must(ep.Bind(tcpip.FullAddress{Port: abPort}, nil), "listener Bind")
	must(ep.Listen(8), "Listen")
	w.lep = ep
	if cfg.Budget > 0 {
		w.fc = &FaultCfg{Drop: cfg.Drop, Dup: cfg.Dup, Reorder: cfg.Reorder, Stale: cfg.Stale, Delay: cfg.Delay, WriteErr: cfg.WriteErr, Budget: cfg.Budget, MaxDelay: 3 * time.Second}
		if cfg.DropOnly {
			// a frame the emitting device refuses is a loss like any other; resets are spared, as on the wire
			w.fc = &FaultCfg{Drop: cfg.Drop, WriteErr: cfg.WriteErr, Budget: cfg.Budget, Undroppable: func(f *Frame) bool {
				t, ok := peekTCP(f)
				return ok && t.Flags&0x04 != 0
			}}
			for _, n := range w.N {
				n.Link.FailGuard = func(proto tcpip.NetworkProtocolNumber, hdr buffer.View, payload buffer.VectorisedView) bool {
					t, ok := peekTCP(&Frame{Proto: proto, Data: append(append([]byte(nil), hdr...), payload.ToView()...)})
					return ok && t.Flags&0x04 != 0
				}
			}
		}
	}
	if len(cfg.DropIDs) > 0 {
		w.DropIDs = map[int]bool{}
		for _, id := range cfg.DropIDs {
			w.DropIDs[id] = true
		}
		w.DropGuard = func(f *Frame) bool {
			t, ok := peekTCP(f)
			return ok && t.Flags&0x04 != 0
		}
	}
	for i := 0; i < cfg.NConn; i++ {
		w.conns = append(w.conns, &abConn{id: i, port: uint16(20000 + i), lastWin: [2]int{-1, -1}, sentWin: [2]int{-1, -1}})
	}
	w.OnEmit = w.onEmit
	w.OnDeliver = w.onDeliver
	w.OnDrop = w.onDrop
	w.OnLinkError = func(f *Frame) {
		// a frame the device refused was sent as far as the stack is concerned, and lost
		w.lostDuringClose = true
		w.onEmit(f)
		w.onDrop(f)
	}
	w.Settle()
	return w
}

// onEmit records ISS values and sequence wrap reach probes from the wire.
func (w *ABWorld) onEmit(f *Frame) {
	seg, ok := peekTCP(f)
	if !ok {
		return
	}
	side := f.Link // 0: from A (client), 1: from B
	var c *abConn
	for _, x := range w.conns {
		if (side == 0 && seg.SrcPort == x.port) || (side == 1 && seg.DstPort == x.port) {
			c = x
		}
	}
	if c == nil {
		return
	}
	if seg.Flags&0x02 != 0 && !c.haveISS[side] {
		c.iss[side], c.haveISS[side] = seg.Seq, true
		if side == 0 && c.id == 0 && w.havePlaced && seg.Seq != w.placed {
			// the value queued for this connection's initial sequence number was drawn by somebody else (another
			// connection's goroutine got in between): the run says nothing about where the sequence space starts
			w.PlacementMissed = true
			w.Probes["iss_placement_missed"]++
		}
	}
	if side == 0 && seg.Flags&0x10 != 0 && seg.Flags&0x06 == 0 {
		c.clientAcksTried++
	}
	if seg.Flags&0x04 != 0 {
		if x := c.s[side]; x != nil && x.closed && x.quietClose && c.rstSent[1-side] == 0 && w.faultsFired() == 0 && time.Since(w.T0)-x.closeAt < 2900*time.Millisecond && f.ID >= 0 {
			// "when no packet of the closing exchange is lost both endpoints end ... without error": this side's
			// application closed with nothing unread and nothing on its way, the peer has sent no data since, no
			// packet was lost - and its stack answers the closing handshake with a reset (the abort this stack arms
			// at Close comes 3 s later and is finding F9's business)
			w.Fail("reset-after-orderly-close", "", "connection %d: side %d closed its socket %v ago with nothing unread and nothing in flight, no packet was lost in this run, yet its stack sends a reset (seq=%d) into the closing handshake", c.id, side, time.Since(w.T0)-x.closeAt, seg.Seq)
		}
		c.rstSent[side]++
		if c.haveNxt[side] && int32(seg.Seq-c.nxt[side]) < 0 {
			c.rstStale[side]++
		}
	} else {
		if seg.Flags&0x02 == 0 {
			c.sentWin[side] = int(seg.Window)
		}
		end := seg.Seq + uint32(len(seg.Payload))
		if seg.Flags&0x03 != 0 {
			end++
		}
		if !c.haveNxt[side] || int32(end-c.nxt[side]) > 0 {
			c.nxt[side], c.haveNxt[side] = end, true
		}
	}
	if len(seg.Payload) > 0 {
		end := seg.Seq + uint32(len(seg.Payload))
		if c.haveMax[side] && int32(seg.Seq-c.maxEnd[side]) < 0 {
			w.Probes["retransmission_seen"]++
		}
		if !c.haveMax[side] || int32(end-c.maxEnd[side]) > 0 {
			c.maxEnd[side], c.haveMax[side] = end, true
		}
		if end < seg.Seq { // crossed 2^32 inside this segment
			w.Probes["segment_straddles_2^32"]++
		}
		if seg.Seq < 1<<31 && end >= 1<<31 {
			w.Probes["segment_straddles_2^31"]++
		}
	}
	for _, b := range seg.SACK {
		if b[1] < b[0] {
			w.Probes["sack_block_straddles_2^32"]++
		}
		w.Probes["sack_block_emitted"]++
	}
	if seg.Window == 0 && seg.Flags&0x04 == 0 {
		w.Probes["zero_window_advertised"]++
	}
}

// app steps ------------------------------------------------------------

func (w *ABWorld) connect(ci int) {
	if ci < 0 || ci >= len(w.conns) {
		return
	}
	c := w.conns[ci]
	if c.started {
		return
	}
	c.started = true
	c.startedAt = time.Since(w.T0)
	wq := &waiter.Queue{}
	ep, err := w.N[0].S.NewEndpoint(tcp.ProtocolNumber, w.net(), wq)
	must(err, "client NewEndpoint")
	must(ep.Bind(tcpip.FullAddress{Port: c.port}, nil), "client Bind")
	// ISS placement (the endpoint has drawn its timestamp offset already; the
	// next 4-byte draw is the handshake's initial sequence number).
	if ci == 0 && w.Cfg.ISSMode > 0 && !w.Cfg.MeasureK {
		var target uint32
		switch w.Cfg.ISSMode {
		case 1, 2:
			target = issBase(w.Cfg.ISSMode, w.Cfg.ISSMid) - uint32(w.Cfg.ISSBack)
		case 3, 4:
			target = issBase(w.Cfg.ISSMode, w.Cfg.ISSMid) - uint32(w.Cfg.ISSBack) - w.Cfg.KPassive
		}
		rand.VerifNext([]byte{byte(target), byte(target >> 8), byte(target >> 16), byte(target >> 24)})
		w.placed, w.havePlaced = target, true
	}
	e := ep.Connect(tcpip.FullAddress{Addr: w.addr(1), Port: abPort})
	c.s[0] = &abSide{ep: ep, wq: wq, target: int64(w.Cfg.Bytes[ci*2])}
	w.watchOut(c.s[0])
	if e != tcpip.ErrConnectStarted && e != nil {
		c.connErr = e
		c.s[0].hardErr = e
	}
	w.Settle()
}

func (w *ABWorld) accept() {
	ep, wq, err := w.lep.Accept()
	if err != nil {
		return
	}
	ra, e2 := ep.GetRemoteAddress()
	if e2 != nil {
		ep.Close()
		w.Settle()
		return
	}
	for _, c := range w.conns {
		if c.port == ra.Port {
			if c.s[1] != nil {
				// a replayed final ACK of a finished connection validates as a SYN
				// cookie and yields a fresh, silent connection: not counted (DESIGN C01)
				w.phantoms++
				c.phantoms++
				w.Probes["phantom_connection_from_stale_ack"]++
				ep.Close()
				w.Settle()
				return
			}
			c.s[1] = &abSide{ep: ep, wq: wq, target: int64(w.Cfg.Bytes[c.id*2+1])}
			if time.Since(w.T0)-c.startedAt > 20*time.Second {
				// this stack starts an accepted connection's protocol goroutine in Accept: until the application accepts,
				// nothing the client sends is acknowledged. A client that gives up meanwhile was kept waiting by the
				// server application, not by the stack.
				c.unclean = true
				w.Probes["connections_accepted_late"]++
			}
			w.watchOut(c.s[1])
			w.Settle()
			return
		}
	}
	ep.Close()
	w.Settle()
}

// watchOut registers the side's writability callback (the entry stays registered for the life of the run).
func (w *ABWorld) watchOut(s *abSide) {
	s.outEntry.Callback = abOut{s}
	s.wq.EventRegister(&s.outEntry, waiter.EventOut)
}

func isHard(e *tcpip.Error) bool {
	return e != nil && e != tcpip.ErrWouldBlock && e != tcpip.ErrClosedForReceive && e != tcpip.ErrClosedForSend &&
		e != tcpip.ErrInvalidEndpointState && e != tcpip.ErrConnectStarted && e != tcpip.ErrNotConnected
}

func (w *ABWorld) side(ci, si int) (*abConn, *abSide) {
	if ci < 0 || ci >= len(w.conns) || si < 0 || si > 1 {
		return nil, nil
	}
	c := w.conns[ci]
	return c, c.s[si]
}

// checkConnected polls whether the client side has finished its handshake.
func (w *ABWorld) checkConnected(c *abConn) {
	s := c.s[0]
	if s == nil || c.connected || s.closed {
		return
	}
	if _, err := s.ep.GetRemoteAddress(); err == nil {
		c.connected = true
		return
	}
	if err := s.ep.GetSockOpt(tcpip.ErrorOption{}); isHard(err) {
		s.hardErr = err
		c.connErr = err
	}
}

func (w *ABWorld) write(ci, si, n int) {
	c, s := w.side(ci, si)
	if s == nil || s.closed || s.shutW || s.hardErr != nil || n <= 0 {
		return
	}
	if si == 0 {
		w.checkConnected(c)
		if !c.connected {
			return
		}
	}
	if rem := s.target - s.accepted; int64(n) > rem {
		n = int(rem)
	}
	if n <= 0 {
		return
	}
	if w.Cfg.Gated && s.wblocked {
		// this application sleeps until the stack signals writability; it does not poll
		if !s.outSeen {
			w.Probes["writes_waiting_for_writability"]++
			return
		}
		s.wblocked = false
		w.Probes["writers_woken_by_writability"]++
	}
	buf := make([]byte, n)
	for i := range buf {
		buf[i] = abByte(w.seed, ci, si, s.accepted+int64(i))
	}
	s.outSeen = false
	got, _, err := s.ep.Write(tcpip.SlicePayload(buf), tcpip.WriteOptions{})
	if err == tcpip.ErrWouldBlock || (err == nil && int(got) < n) {
		s.wblocked = true
	}
	s.accepted += int64(got)
	if got > 0 {
		if o := c.s[1-si]; o != nil && o.closed {
			o.quietClose = false // data for a closed socket: a reset is the answer
		}
	}
	if isHard(err) {
		s.hardErr = err
	}
	w.settle()
}

// read takes one view from the receive queue and checks it against the
// writer's stream (C01's oracle).
func (w *ABWorld) read(ci, si int) bool {
	c, s := w.side(ci, si)
	if s == nil || s.closed {
		return false
	}
	v, _, err := s.ep.Read(nil)
	if err != nil {
		if err == tcpip.ErrClosedForReceive {
			if ws := c.s[1-si]; !s.eof && ws != nil && (ws.shutW || ws.closed) && s.read < ws.accepted {
				// "truncated": end-of-stream is the peer's FIN taken in sequence, so everything the writer's
				// writes had accepted before it shut down has to have been returned by now
				sig := ""
				if si == 1 {
					// (finding F11, as in the stream-corrupt case below: the passive side's connection was created by a
					// late bare ACK taken as a SYN cookie, its stream starts that many bytes late - here those were all)
					for _, late := range c.lateAcks {
						if late > 0 && s.read+int64(late) == ws.accepted {
							sig = fmt.Sprintf(" [passive side accepted from a late bare ACK taken as SYN cookie: stream starts %d byte(s) late]", late)
							break
						}
					}
				}
				if si == 0 && c.phantoms > 0 {
					// (F11 again: after the passive side had given the connection up, a late bare ACK made its listener
					// hand out a second connection on the same 4-tuple; when that one is closed its FIN carries the
					// sequence number the client expects next: the phantom's numbers start at the late ACK's
					// acknowledgement number, which is how far the client had got)
					sig = " [passive side accepted from a late bare ACK taken as SYN cookie a second connection on this 4-tuple; its FIN ended the client's stream]"
				}
				w.Fail("eof-before-data", sig, "connection %d: reader side %d saw end-of-stream after %d bytes but the writer's writes had accepted %d before it shut down%s", ci, si, s.read, ws.accepted, sig)
			}
			s.eof = true
		} else if isHard(err) {
			s.hardErr = err
		}
		return false
	}
	if s.eof {
		w.Fail("data-after-eof", "", "connection %d side %d: %d bytes returned by Read after end-of-stream was reported", ci, si, len(v))
	}
	peer := c.s[1-si]
	d := 1 - si // direction index of the writer
	for i, b := range v {
		if want := abByte(w.seed, ci, d, s.read+int64(i)); b != want {
			sig := ""
			if si == 1 && s.read == 0 {
				// does the reader's stream equal the writer's, shifted by the bytes the client had sent before
				// the bare ACK that created this connection? (any of the bare ACKs delivered before the accept -
				// duplicates and stale copies among them - may have been the one)
				for _, late := range c.lateAcks {
					shifted := late > 0
					for j, x := range v {
						if x != abByte(w.seed, ci, d, int64(late)+int64(j)) {
							shifted = false
							break
						}
					}
					if shifted {
						sig = fmt.Sprintf(" [passive side accepted from a late bare ACK taken as SYN cookie: stream starts %d byte(s) late]", late)
						break
					}
				}
			}
			w.Fail("stream-corrupt", sig, "connection %d: reader side %d got byte 0x%02x at stream offset %d, writer side %d wrote 0x%02x there (bytes lost, duplicated, reordered or invented)%s", ci, si, b, s.read+int64(i), d, want, sig)
			break
		}
	}
	s.read += int64(len(v))
	var acc int64
	if peer != nil {
		acc = peer.accepted
	}
	if s.read > acc {
		w.Fail("stream-invented", "", "connection %d: reader side %d has read %d bytes but the writer's writes accepted only %d", ci, si, s.read, acc)
	}
	w.settle()
	return true
}

func (w *ABWorld) shutw(ci, si int) {
	c, s := w.side(ci, si)
	if s == nil || s.closed || s.shutW {
		return
	}
	if si == 0 {
		w.checkConnected(c)
		if !c.connected {
			return
		}
	}
	if err := s.ep.Shutdown(tcpip.ShutdownWrite); err == nil {
		s.shutW = true
		s.shutAt = time.Since(w.T0)
	}
	w.settle()
}

func (w *ABWorld) closeSide(ci, si int) {
	_, s := w.side(ci, si)
	if s == nil || s.closed {
		return
	}
	// is there unread data? (Close then resets, by design of this stack)
	var q tcpip.ReceiveQueueSizeOption
	if err := s.ep.GetSockOpt(&q); err == nil && q > 0 {
		s.unreadAtClose = true
	}
	if c := w.conns[ci]; !(s.eof && !s.unreadAtClose && c.s[1-si] != nil && c.s[1-si].read == s.accepted) {
		// only a Close by a side that has read the peer's end-of-stream and whose own bytes the peer's
		// application has all read leaves nothing but the closing handshake to do
		c.unclean = true
	}
	if peer := w.conns[ci].s[1-si]; !s.unreadAtClose && peer != nil && peer.accepted == s.read && s.hardErr == nil && peer.hardErr == nil && w.pendingAsync == 0 {
		s.quietClose = true
	}
	s.ep.Close()
	s.closed = true
	s.shutW = true
	s.closeAt = time.Since(w.T0)
	w.Settle()
}

// Next draws the next step of the fault phase.
func (w *ABWorld) Next(step int) Step {
	r := w.Rng
	// pending connects / accepts first with some probability
	for _, c := range w.conns {
		if !c.started && r.Chance(0.5) {
			return Step{Op: "connect", A: c.id}
		}
	}
	if r.Chance(0.15) {
		return Step{Op: "accept"}
	}
	// wire vs app vs time
	switch r.Pick(10, 8, 2) {
	case 0:
		if s, ok := w.WireStep(w.fc); ok {
			if s.Op == "deliver" && w.Cfg.YieldP > 0 && r.Chance(0.3) {
				s.Op = "ndeliver" // its processing overlaps with the next (posted) application operations
			}
			return s
		}
		fallthrough
	case 1:
		ci := r.Intn(len(w.conns))
		si := r.Intn(2)
		c, s := w.side(ci, si)
		if s == nil {
			if !c.started {
				return Step{Op: "connect", A: ci}
			}
			return Step{Op: "accept"}
		}
		async := w.Cfg.YieldP > 0 && r.Chance(0.4)
		switch r.Pick(6, 8, 1, 1) {
		case 0:
			sizes := []int{1, 7, 100, 536, 1460, 4000, 16000, 65536}
			if async {
				return Step{Op: "awrite", A: ci, B: si, C: r.Range(1, sizes[r.Intn(len(sizes))])}
			}
			switch r.Pick(30, 1, 1) {
			case 1:
				return Step{Op: "write0", A: ci, B: si} // a Write of no bytes: nothing happens to the stream
			case 2:
				return Step{Op: "rcvgrow", A: ci, B: si, C: r.Intn(3)} // the application enlarges its receive buffer
			}
			return Step{Op: "write", A: ci, B: si, C: r.Range(1, sizes[r.Intn(len(sizes))])}
		case 1:
			if w.Cfg.Stalls && step < s.stallTil {
				return Step{Op: "adv", D: int64(time.Duration(r.Range(1, 50)) * time.Millisecond)}
			}
			if async {
				return Step{Op: "aread", A: ci, B: si}
			}
			return Step{Op: "read", A: ci, B: si}
		case 2:
			if w.Cfg.ServerFirst && si == 0 && !s.eof {
				return Step{Op: "read", A: ci, B: si}
			}
			if s.accepted >= s.target || r.Chance(0.1) {
				return Step{Op: "shutw", A: ci, B: si}
			}
			return Step{Op: "write", A: ci, B: si, C: r.Range(1, 3000)}
		default:
			if w.Cfg.CloseMix >= 1 && s.accepted >= s.target && (s.eof || w.Cfg.CloseMix == 2) && r.Chance(0.5) && !(w.Cfg.ServerFirst && si == 0 && !s.eof) {
				return Step{Op: "close", A: ci, B: si}
			}
			if w.Cfg.Stalls && r.Chance(0.3) {
				s.stallTil = step + r.Range(10, 200)
			}
			return Step{Op: "read", A: ci, B: si}
		}
	}
	// time (under the drop-only model the network adds no delay: whatever is
	// in flight is delivered before the clock moves)
	if w.Cfg.DropOnly && w.InFlight() > 0 {
		if s, ok := w.WireStep(w.fc); ok {
			return s
		}
	}
	switch r.Pick(6, 3, 1) {
	case 0:
		return Step{Op: "adv", D: int64(time.Duration(r.Range(1, 50000)) * time.Microsecond)}
	case 1:
		return Step{Op: "adv", D: int64(time.Duration(r.Range(200, 3000)) * time.Millisecond)}
	}
	return Step{Op: "adv", D: int64(time.Duration(r.Range(3, 120)) * time.Second)}
}

// Apply executes one recorded step.
func (w *ABWorld) Apply(s Step) {
	if w.pendingAsync > 0 && (s.Op == "write" || s.Op == "write0" || s.Op == "rcvgrow" || s.Op == "read" || s.Op == "shutw" || s.Op == "close" || s.Op == "connect" || s.Op == "accept") {
		// an application's own operations are sequential: let the posted ones
		// finish before the simulator goroutine acts for the applications itself
		w.Settle()
	}
	if s.Op == "adv" && w.Cfg.DropOnly {
		// the drop-only model has no network delay: what is in flight arrives
		// (in order) before the clock moves, and what is emitted while it moves
		// arrives within a second - also in a minimised replay
		remaining := time.Duration(s.D)
		for remaining > 0 {
			w.flush()
			w.ClearEmitted()
			t := w.AdvanceUntil(remaining, func() bool { return len(w.Emitted) > 0 })
			remaining -= t
			if t == 0 {
				break
			}
		}
		w.flush()
		return
	}
	if w.ApplyWire(s) {
		if s.Op == "drop" {
			w.noteLoss()
		}
		return
	}
	switch s.Op {
	case "connect":
		w.connect(s.A)
	case "accept":
		w.accept()
	case "write":
		w.write(s.A, s.B, s.C)
	case "read":
		w.read(s.A, s.B)
	case "write0":
		if c, sd := w.side(s.A, s.B); sd != nil && !sd.closed && !sd.shutW && sd.hardErr == nil && (s.B == 1 || c.connected) {
			sd.ep.Write(tcpip.SlicePayload(nil), tcpip.WriteOptions{})
			w.Probes["writes_of_no_bytes"]++
			w.settle()
		}
	case "rcvgrow":
		if _, sd := w.side(s.A, s.B); sd != nil && !sd.closed {
			var cur tcpip.ReceiveBufferSizeOption
			if err := sd.ep.GetSockOpt(&cur); err == nil && int(cur) < 1<<20 {
				sd.ep.SetSockOpt(tcpip.ReceiveBufferSizeOption(int(cur) * []int{2, 4, 16}[s.C%3]))
				w.Probes["receive_buffers_enlarged"]++
				w.settle()
			}
		}
	case "shutw":
		w.shutw(s.A, s.B)
	case "close":
		w.closeSide(s.A, s.B)
	case "awrite", "aread", "ashutw":
		// the same operations run by the side's own application goroutine,
		// concurrently with whatever the next steps make the stack do
		_, sd := w.side(s.A, s.B)
		if sd == nil || sd.closed {
			return
		}
		w.asyncOps++
		w.pendingAsync++
		op, a, b, c := s.Op, s.A, s.B, s.C
		sd.async(func() {
			w.inAsync++
			switch op {
			case "awrite":
				w.write(a, b, c)
			case "aread":
				w.read(a, b)
			case "ashutw":
				w.shutw(a, b)
			}
			w.inAsync--
			w.pendingAsync--
		})
	}
}

func (w *ABWorld) flush() {
	for n := 0; w.InFlight() > 0 && n < 10000; n++ {
		for _, l := range w.Links {
			if len(l.Queue) > 0 && l.Peer >= 0 {
				w.Deliver(l.Idx, 0, 0)
			}
		}
	}
}

func (w *ABWorld) noteLoss() {
	for _, c := range w.conns {
		for _, s := range c.s {
			if s != nil && (s.shutW || s.closed) {
				w.lostDuringClose = true
			}
		}
	}
}

// Drain: faults off. Deliver in order, let the applications finish (write
// what is planned, shut down, read to the end), advancing the clock up to the
// liveness bound. Returns the fake time it took.
func (w *ABWorld) Drain(bound time.Duration) time.Duration {
	start := time.Since(w.T0)
	for iter := 0; iter < 200000; iter++ {
		progress := false
		burst, at := 0, time.Since(w.T0)
		for w.InFlight() > 0 {
			for _, l := range w.Links {
				for len(l.Queue) > 0 && l.Peer >= 0 {
					w.Deliver(l.Idx, 0, 0)
					progress = true
					burst++
				}
			}
			if time.Since(w.T0) != at {
				burst, at = 0, time.Since(w.T0)
			}
			if burst > 20000 {
				// two desynchronised endpoints answering each other's unacceptable
				// ACKs for ever: with a zero-latency wire no time passes. Not a
				// verdict of this oracle; the run ends here.
				w.Probes["ack_storm_cut"]++
				for _, l := range w.Links {
					l.Queue = nil
				}
				w.stormed = true
				return time.Since(w.T0) - start
			}
		}
		// applications
		for _, c := range w.conns {
			if !c.started {
				w.connect(c.id)
				progress = true
			}
		}
		for i := 0; i < 4; i++ {
			n := w.phantoms
			had := 0
			for _, c := range w.conns {
				if c.s[1] != nil {
					had++
				}
			}
			w.accept()
			now := 0
			for _, c := range w.conns {
				if c.s[1] != nil {
					now++
				}
			}
			if now != had || n != w.phantoms {
				progress = true
			}
		}
		for _, c := range w.conns {
			for si := 0; si < 2; si++ {
				s := c.s[si]
				if s == nil || s.closed {
					continue
				}
				for w.read(c.id, si) {
					progress = true
				}
				if si == 0 {
					w.checkConnected(c)
				}
				if s.hardErr != nil {
					continue
				}
				if !s.shutW && s.accepted < s.target {
					before := s.accepted
					w.write(c.id, si, int(s.target-s.accepted))
					if s.accepted != before {
						progress = true
					}
				}
				if !s.shutW && s.accepted >= s.target && (si == 1 || c.connected) && !(w.Cfg.ServerFirst && si == 0 && !s.eof) {
					w.shutw(c.id, si)
					if s.shutW {
						progress = true
					}
				}
			}
		}
		if w.Viol != nil {
			break
		}
		if w.allSettled() {
			break
		}
		if w.InFlight() > 0 {
			continue
		}
		if time.Since(w.T0)-start >= bound {
			break
		}
		if !progress {
			w.ClearEmitted()
			w.AdvanceUntil(bound-(time.Since(w.T0)-start), func() bool { return len(w.Emitted) > 0 })
			if len(w.Emitted) == 0 && w.InFlight() == 0 {
				break // bound reached in silence
			}
		}
	}
	return time.Since(w.T0) - start
}

// dirState classifies direction writer side wi -> reader side 1-wi.
func (w *ABWorld) dirDone(c *abConn, wi int) (done bool, how string) {
	ws, rs := c.s[wi], c.s[1-wi]
	if ws == nil && rs == nil {
		return true, "never-started"
	}
	if (ws != nil && ws.hardErr != nil) || (rs != nil && rs.hardErr != nil) || c.connErr != nil {
		return true, "failed-explicitly"
	}
	if (rs == nil && ws.closed) || (ws == nil && rs.closed) {
		return true, "closed-before-established"
	}
	if rs == nil || ws == nil {
		return false, "not-established"
	}
	if rs.closed {
		return true, "reader-closed"
	}
	if ws.shutW && rs.eof && rs.read == ws.accepted {
		return true, "complete"
	}
	if rs.eof && rs.read != ws.accepted {
		return true, "eof-short"
	}
	return false, "pending"
}

func (w *ABWorld) allSettled() bool {
	for _, c := range w.conns {
		for wi := 0; wi < 2; wi++ {
			if d, _ := w.dirDone(c, wi); !d {
				return false
			}
		}
	}
	return true
}

// Final evaluates C02's oracle after the drain.
func (w *ABWorld) Final(bound time.Duration) {
	// the drain may have ended in silence (bound reached with nothing emitted): let the applications look at their
	// sockets once more, so that an error the stack reported meanwhile - a handshake given up - is seen
	for _, c := range w.conns {
		w.checkConnected(c)
		for si := 0; si < 2; si++ {
			if s := c.s[si]; s != nil && !s.closed {
				for w.read(c.id, si) {
				}
			}
		}
	}
	// "when no packet of the closing exchange is lost both endpoints end ... without error": in a run whose wire
	// never misbehaved, on a connection that no application closed with data still owed, nobody is told of an error
	if w.faultsFired() == 0 && !w.stormed {
		w.Probes["runs_without_any_fault"]++
		for _, c := range w.conns {
			if c.unclean || c.s[1] == nil {
				continue // (closed with something still owed, accepted late or never accepted: errors may be the applications' doing)
			}
			for si := 0; si < 2; si++ {
				if s := c.s[si]; s != nil && s.hardErr != nil {
					w.Fail("error-without-loss", "", "connection %d side %d reports %q although no packet was lost, duplicated, delayed or refused in this run and no application closed its socket with data outstanding", c.id, si, s.hardErr.String())
				}
			}
		}
	}
	for _, c := range w.conns {
		for wi := 0; wi < 2; wi++ {
			done, how := w.dirDone(c, wi)
			ws, rs := c.s[wi], c.s[1-wi]
			if done && how == "eof-short" {
				w.Fail("eof-before-data", "", "connection %d: reader side %d saw end-of-stream after %d bytes but the writer's writes had accepted %d before it shut down", c.id, 1-wi, rs.read, ws.accepted)
			}
			if done {
				w.Probes["dir_"+how]++
				continue
			}
			if w.Cfg.ServerFirst && wi == 0 && ws != nil && !ws.shutW && !ws.closed && ws.hardErr == nil {
				// the client is waiting for the server's end-of-stream by design: the verdict
				// on this connection is the one of the server-to-client direction
				w.Probes["client_still_waiting_for_the_server"]++
				continue
			}
			if c.s[1] == nil && c.s[0] != nil && c.clientAcksDelivered == 0 && c.clientAcksTried >= c.synAcksDelivered && c.s[0].accepted == 0 && !c.s[0].shutW && !c.s[0].closed {
				// the client answered every SYN-ACK that reached it, every one of those answers was lost, the passive side gave
				// up (it has no socket to report that to), and the client - connected as far as it can know - has
				// neither data nor a FIN outstanding: a half-open connection, quiet by right
				w.Probes["half_open_after_every_handshake_ack_was_lost"]++
				continue
			}
			// not done within the bound: is it permanently quiet?
			w.ClearEmitted()
			w.Advance(3 * time.Hour)
			if len(w.Emitted) > 0 {
				w.Probes["still_retransmitting_after_bound"]++
				continue
			}
			sig := w.stallSignature(c, wi)
			var acc, rd int64
			if ws != nil {
				acc = ws.accepted
			}
			if rs != nil {
				rd = rs.read
			}
			w.Fail("silent-stall", sig, "connection %d direction %d->%d: %d of %d bytes read, end-of-stream=%v, no error on either side, wire empty, and 3 further simulated hours produced no frame [%s]", c.id, wi, 1-wi, rd, acc, rs != nil && rs.eof, sig)
		}
	}
}

// stallSignature describes a stalled direction from the outside: what the
// sender last heard about the peer's window and what was lost last.
func (w *ABWorld) stallSignature(c *abConn, wi int) string {
	ws := c.s[wi]
	sig := fmt.Sprintf("state=%s", w.stallState(c, wi))
	if ws != nil && ws.closed {
		sig += " writer=closed"
	} else {
		sig += " writer=open"
	}
	switch {
	case c.rstSent[wi] == 0:
		sig += " writer-rst=none"
	case c.rstStale[wi] > 0:
		sig += " writer-rst=below-snd-nxt"
	case c.rstLost[wi] >= c.rstSent[wi]:
		sig += " writer-rst=lost"
	default:
		sig += " writer-rst=at-snd-nxt-not-accepted"
	}
	if c.rstSent[1-wi] > 0 {
		sig += " reader-rst=sent"
	}
	switch {
	case c.lastWin[wi] == 0 && c.sentWin[1-wi] > 0:
		// the reader's latest segment re-opened the window but the sender never got it
		sig += " peer-window=zero,update-lost"
	case c.lastWin[wi] == 0:
		sig += " peer-window=zero,never-reopened"
	default:
		sig += " peer-window=open"
	}
	return sig
}

func (w *ABWorld) stallState(c *abConn, wi int) string {
	ws, rs := c.s[wi], c.s[1-wi]
	if ws == nil || rs == nil {
		return "handshake-incomplete"
	}
	var info tcpip.TCPInfoOption
	_ = info
	if rs.read < ws.accepted {
		return "data-outstanding"
	}
	return "fin-outstanding"
}

// peekTCP decodes just enough of a frame to look at TCP fields.
type tcpPeek struct {
	SrcPort, DstPort uint16
	Seq, Ack         uint32
	Flags            uint8
	Window           uint16
	Payload          []byte
	SACK             [][2]uint32
}

func peekTCP(f *Frame) (*tcpPeek, bool) {
	b := f.Data
	var p []byte
	switch f.Proto {
	case ipv4.ProtocolNumber:
		if len(b) < 20 || b[9] != 6 {
			return nil, false
		}
		ihl := int(b[0]&0xf) * 4
		if ihl > len(b) {
			return nil, false
		}
		p = b[ihl:]
	case ipv6.ProtocolNumber:
		if len(b) < 40 || b[6] != 6 {
			return nil, false
		}
		p = b[40:]
	default:
		return nil, false
	}
	if len(p) < 20 {
		return nil, false
	}
	off := int(p[12]>>4) * 4
	if off < 20 || off > len(p) {
		return nil, false
	}
	t := &tcpPeek{SrcPort: uint16(p[0])<<8 | uint16(p[1]), DstPort: uint16(p[2])<<8 | uint16(p[3]),
		Seq:   uint32(p[4])<<24 | uint32(p[5])<<16 | uint32(p[6])<<8 | uint32(p[7]),
		Ack:   uint32(p[8])<<24 | uint32(p[9])<<16 | uint32(p[10])<<8 | uint32(p[11]),
		Flags: p[13], Window: uint16(p[14])<<8 | uint16(p[15]), Payload: p[off:]}
	o := p[20:off]
	for i := 0; i < len(o); {
		if o[i] == 0 {
			break
		}
		if o[i] == 1 {
			i++
			continue
		}
		if i+1 >= len(o) || int(o[i+1]) < 2 || i+int(o[i+1]) > len(o) {
			break
		}
		if o[i] == 5 {
			d := o[i+2 : i+int(o[i+1])]
			for j := 0; j+8 <= len(d); j += 8 {
				t.SACK = append(t.SACK, [2]uint32{uint32(d[j])<<24 | uint32(d[j+1])<<16 | uint32(d[j+2])<<8 | uint32(d[j+3]), uint32(d[j+4])<<24 | uint32(d[j+5])<<16 | uint32(d[j+6])<<8 | uint32(d[j+7])})
			}
		}
		i += int(o[i+1])
	}
	return t, true
}

// describe renders a frame for the event log.
func describe(f *Frame) string {
	if t, ok := peekTCP(f); ok {
		fl := ""
		for i, n := range []string{"F", "S", "R", "P", "A"} {
			if t.Flags&(1<<uint(i)) != 0 {
				fl += n
			}
		}
		s := fmt.Sprintf("tcp %d>%d [%s] seq=%d ack=%d win=%d len=%d", t.SrcPort, t.DstPort, fl, t.Seq, t.Ack, t.Window, len(t.Payload))
		if len(t.SACK) > 0 {
			s += fmt.Sprintf(" sack=%v", t.SACK)
		}
		return s
	}
	return fmt.Sprintf("proto=0x%04x len=%d", uint16(f.Proto), len(f.Data))
}

func (w *ABWorld) connOf(f *Frame) (*abConn, int, *tcpPeek) {
	seg, ok := peekTCP(f)
	if !ok {
		return nil, 0, nil
	}
	side := f.Link
	for _, x := range w.conns {
		if (side == 0 && seg.SrcPort == x.port) || (side == 1 && seg.DstPort == x.port) {
			return x, side, seg
		}
	}
	return nil, 0, nil
}

func (w *ABWorld) onDeliver(f *Frame) {
	c, side, seg := w.connOf(f)
	if c == nil {
		return
	}
	to := 1 - side
	if seg.Flags&0x04 != 0 {
		c.rstDeliv[side]++
		return
	}
	if side == 1 && seg.Flags&0x12 == 0x12 {
		c.synAcksDelivered++
	}
	if seg.Flags&0x10 != 0 && seg.Flags&0x02 == 0 {
		if side == 0 {
			c.clientAcksDelivered++
		}
		c.lastWin[to] = int(seg.Window)
		c.winDropped[to] = false
	}
	if side == 0 && c.s[1] == nil && seg.Flags == 0x10 && len(seg.Payload) == 0 && c.haveISS[0] {
		c.lateAck = seg.Seq - (c.iss[0] + 1)
		seen := false
		for _, x := range c.lateAcks {
			if x == c.lateAck {
				seen = true
			}
		}
		if !seen && len(c.lateAcks) < 64 {
			c.lateAcks = append(c.lateAcks, c.lateAck)
		}
	}
}

func (w *ABWorld) onDrop(f *Frame) {
	c, side, seg := w.connOf(f)
	if c == nil {
		return
	}
	if seg.Flags&0x04 != 0 {
		c.rstLost[side]++
		return
	}
	if seg.Flags&0x10 != 0 && seg.Flags&0x02 == 0 && len(seg.Payload) == 0 && seg.Window > 0 && c.lastWin[1-side] == 0 {
		c.winDropped[1-side] = true
	}
}

// settle waits for quiescence unless called from an application goroutine
// (only the simulator goroutine may wait; it does so after its next step).
func (w *ABWorld) settle() {
	if w.inAsync == 0 {
		w.Settle()
	}
}

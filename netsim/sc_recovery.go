package netsim

import (
	"encoding/json"
	"sort"
	"testing"
	"time"

	"verif/netsim/codec"
	"verif/sim"

	tcpip "github.com/brewlin/net-protocol/protocol"
)

// scRecovery: C05 - loss recovery is prompt and the congestion window is
// obeyed. The stack sends a flight; the scripted peer is an ordinary immediate-
// ACK receiver, while the simulator decides which emitted segments the peer
// never sees, when it looks at its inbox, and how the clock moves.
type scRecovery struct{}

func init() {
	scenarios["recovery"] = scRecovery{}
	propScenario["C05"] = "recovery"
}

type segRec struct {
	off, end int64
	times    []time.Duration // emission instants
	refused  int             // how many of them the device refused (never on the wire)
	acked    bool
}

type recWorld struct {
	*winWorld
	inbox       []*Decoded // emitted data segments the peer has not looked at yet
	segs        map[int64]*segRec
	order       []int64 // segment starts in first-emission order
	got         []bool  // bytes the peer holds
	cum         int64   // peer's cumulative ack offset
	lastAckNo   int64   // number carried by the last ACK the peer sent (-1 none)
	repeats     int     // how many times in a row that number was repeated (same window, no data)
	dupTotal    int     // duplicate ACKs delivered so far
	ackedSegs   int     // segments newly acknowledged so far
	acksSent    int
	rtoSeen     bool  // a retransmission was emitted while only the clock moved
	recover     int64 // highest offset sent when the last loss recovery (fast or RTO) started
	inAdvance   bool
	lose        map[int64]int // segment start -> how many more times the peer will not see it
	firstAck    bool
	win         uint16
	division    bool          // this run's receiver also acknowledges in the middle of segments
	lastAdvance time.Duration // when the peer last sent an ACK that moved its cumulative position
	lastSeg     *Decoded      // the data segment emitted last (what a router's ICMP error would quote)
	shut        bool          // the application has shut down its write side
	dead        bool          // the stack has reset the connection
	frActive    bool          // a fast retransmission was seen and the peer has not yet acknowledged everything sent before it
	partialCum  int64         // ... the peer's last partial ACK in that episode (-1 none)
	frRecover   int64         // ... i.e. everything sent before the duplicate ACK that triggered it
	partialN    int           // ... and how often the segment starting there had been transmitted when it was sent
}

func (scRecovery) NeutralISS(raw json.RawMessage) json.RawMessage { return neutralWin(raw) }

func (scRecovery) GenCfg(rng *sim.Rand, tier, prop, variant string) json.RawMessage {
	c := genWinCfg(rng, tier)
	c.Role = 0
	c.PeerMSS = []int{536, 1000, 1460, 1460}[rng.Intn(4)]
	c.PeerWS = []int{3, 4, 7}[rng.Intn(3)]
	c.SndBuf = 1 << 20
	c.RcvBuf = 0
	c.MTU = 1500
	if c.V6 {
		c.MTU = 1500
	}
	c.MaxSteps = rng.Range(10, 120)
	c.CC = "reno"
	if rng.Chance(0.3) {
		c.CC = "cubic"
	}
	if prop == "C14" {
		c.ISSPlace = rng.Range(1, 2)
		c.ISSBack = rng.Intn(20000)
	}
	c.Cookie, c.DupSA, c.SAWin, c.SendBlocked = false, false, 0, false
	c.WinJitter = rng.Chance(0.3)
	if rng.Chance(0.25) {
		c.SmallWin = []int{3, 5, 8}[rng.Intn(3)] // the receiver's window holds only a few segments: flights are window-limited
	}
	b, _ := json.Marshal(c)
	return b
}

// observe files every emitted data segment and checks the emission-time oracles.
func (w *recWorld) observe() {
	p := w.p
	for _, d := range w.Take() {
		if d.TCP == nil || d.TCP.SrcPort != p.SPort || d.TCP.DstPort != p.PPort {
			continue
		}
		t := d.TCP
		if t.HasTS {
			p.TSRecent = t.TSVal
		}
		if t.Flags&codec.FlagRST != 0 {
			w.dead = true // the stack has given the connection up (retransmissions exhausted): nothing more is owed
			w.Probes["connection_given_up_by_the_stack"]++
		}
		// a FIN of its own is a segment like any other (it occupies one sequence number): it counts towards
		// the initial window and the segments in flight, and is retransmitted under the same rules
		isFin := t.Flags&codec.FlagFIN != 0 && len(t.Payload) == 0 && t.Flags&codec.FlagSYN == 0
		if t.Flags&codec.FlagSYN != 0 || (len(t.Payload) == 0 && !isFin) {
			continue
		}
		off := int64(int32(t.Seq - (p.StackISS + 1)))
		end := off + int64(len(t.Payload))
		if isFin {
			end = off + 1
			w.Probes["fin_segments_seen"]++
		}
		sr := w.segs[off]
		if sr == nil {
			sr = &segRec{off: off, end: end}
			w.segs[off] = sr
			w.order = append(w.order, off)
		} else {
			w.Probes["retransmissions"]++
			prev := sr.times[len(sr.times)-1]
			if w.inAdvance {
				// retransmission by timeout: never sooner than 200 ms after the previous transmission
				w.rtoSeen = true
				w.frActive = false // a timeout ends the fast-recovery episode (and moves the recover mark)
				w.Probes["rto_retransmissions"]++
				if d.F.At-prev < 200*time.Millisecond && w.Probes["fast_retransmits"] == 0 {
					w.Fail("rto-too-early", "", "segment at stream offset %d retransmitted by timeout %v after its previous transmission (minimum 200 ms)", off, d.F.At-prev)
				}
				if e := w.maxSent(); e > w.recover {
					w.recover = e
				}
			}
		}
		if end > sr.end {
			sr.end = end
		}
		sr.times = append(sr.times, d.F.At)
		if !isFin {
			w.inbox = append(w.inbox, d)
			w.lastSeg = d
		}
		// (3) before the first ACK at most 10 segments; Reno: in flight <= 10 + acked + dup ACKs
		inflight := 0
		for _, o := range w.order {
			if o >= w.cum {
				inflight++
			}
		}
		if !w.firstAck && len(w.order) > 10 {
			w.Fail("initial-window-exceeded", "", "%d distinct data segments sent before the first ACK was delivered (limit 10)", len(w.order))
		}
		if w.cfg.CC == "reno" {
			if lim := 10 + w.ackedSegs + w.dupTotal; inflight > lim {
				w.Fail("cwnd-exceeded", "", "%d segments in flight with %d segments acknowledged and %d duplicate ACKs received so far (limit 10+%d+%d)", inflight, w.ackedSegs, w.dupTotal, w.ackedSegs, w.dupTotal)
			}
		}
	}
}

func (w *recWorld) maxSent() int64 {
	var m int64
	for _, s := range w.segs {
		if s.end > m {
			m = s.end
		}
	}
	return m
}

// sendAck makes the peer acknowledge its cumulative position (with SACK blocks).
func (w *recWorld) sendAck() {
	p := w.p
	var opts []byte
	if w.cfg.SACK && p.StackSACK {
		// blocks for what lies above the hole, highest first, at most 3
		var blocks [][2]uint32
		i := w.cum
		n := int64(len(w.got))
		for i < n {
			for i < n && !w.got[i] {
				i++
			}
			if i >= n {
				break
			}
			j := i
			for j < n && w.got[j] {
				j++
			}
			blocks = append(blocks, [2]uint32{p.StackISS + 1 + uint32(i), p.StackISS + 1 + uint32(j)})
			i = j
		}
		sort.Slice(blocks, func(a, b int) bool { return blocks[a][0] > blocks[b][0] })
		if len(blocks) > 3 {
			blocks = blocks[:3]
		}
		if len(blocks) > 0 {
			opts = codec.PadOpts(codec.OptSACK(blocks))
			w.Probes["sack_blocks_sent"] += int64(len(blocks))
		}
	}
	isDup := w.lastAckNo == w.cum && w.maxSent() > w.cum
	if isDup {
		w.repeats++
		w.dupTotal++
		w.Probes["dup_acks_sent"]++
	} else {
		w.repeats = 0
	}
	w.lastAckNo = w.cum
	p.RcvNxt = p.StackISS + 1 + uint32(w.cum)
	before := w.Probes["retransmissions"]
	third := isDup && w.repeats == 3
	// asserted for the first loss episode of a connection only: after a recovery the
	// NewReno 'recover' rule (RFC 6582) legitimately suppresses fast retransmits for
	// data that was already in flight
	// ... a timeout sets 'recover' to the highest byte sent so far: once the duplicated number
	// is beyond it, three duplicates must trigger a fast retransmission again
	finOnly := false
	if sr := w.segs[w.cum]; sr != nil && sr.end == sr.off+1 {
		finOnly = true // (only the FIN is outstanding: a fast retransmission of it is counted, not demanded)
	}
	eligible := third && !finOnly && !w.dead && w.Probes["fast_retransmits"] == 0 && (w.recover == 0 && !w.rtoSeen || w.rtoSeen && w.cum >= w.recover)
	w.Tracef("peer ack off=%d dup=%v repeats=%d eligible=%v recover=%d sackopts=%d", w.cum, isDup, w.repeats, eligible, w.recover, len(opts))
	sentBefore := w.maxSent() // what a recovery triggered by this very ACK has to repair
	p.Send(codec.FlagACK, p.SndNxt, p.RcvNxt, w.win, opts, nil)
	w.acksSent++
	w.firstAck = true
	w.observe()
	if third {
		w.Probes["third_dup_ack"]++
	}
	if eligible && w.Viol == nil {
		// (1) the segment starting at the repeated number is re-emitted at once
		sr := w.segs[w.cum]
		hit := false
		if sr != nil && len(sr.times) >= 2 && sr.times[len(sr.times)-1] == time.Since(w.T0) && w.Probes["retransmissions"] > before {
			hit = true
		}
		if !hit {
			w.Fail("no-fast-retransmit", "", "three duplicate ACKs for stream offset %d were delivered (no timeout so far, not in recovery, data outstanding up to %d) but the segment starting there was not retransmitted in that step", w.cum, w.maxSent())
		} else {
			w.Probes["fast_retransmits"]++
			w.recover = w.maxSent()
			w.frActive, w.partialCum, w.frRecover = true, -1, sentBefore
		}
	} else if third && w.Probes["retransmissions"] > before {
		w.Probes["fast_retransmits"]++
		w.recover = w.maxSent()
		w.frActive, w.partialCum, w.frRecover = true, -1, sentBefore
	}
	// inside a fast-recovery episode: after a partial ACK, three duplicates of it cannot leave the segment
	// it points at untransmitted (it goes out with the partial ACK or, at the latest, with a duplicate)
	if third && w.frActive && w.partialCum == w.cum && w.Viol == nil {
		if sr := w.segs[w.cum]; sr != nil && len(sr.times) <= w.partialN {
			w.Fail("no-retransmit-after-partial-ack", "", "fast recovery: the peer acknowledged up to stream offset %d (short of %d, everything sent before the recovery began) and repeated that ACK three times; the segment starting there was not retransmitted", w.cum, w.frRecover)
		} else if sr != nil {
			w.Probes["partial_ack_then_three_duplicates"]++
		}
	}
}

// ackTo moves the peer's cumulative position, credits the segments it now
// covers completely and sends the ACK.
func (w *recWorld) ackTo(to int64) {
	if to > w.cum {
		w.cum = to
		if w.cfg.WinJitter {
			w.win ^= 0x0040 // every advancing ACK also changes the advertised window a little
		}
		if w.frActive {
			if w.cum >= w.frRecover {
				w.frActive = false
			} else if sr := w.segs[w.cum]; sr != nil {
				w.partialCum, w.partialN = w.cum, len(sr.times)
			} else {
				w.partialCum = -1
			}
		}
		w.lastAdvance = time.Since(w.T0) // an ACK that advances restarts the retransmission timer
		for _, o := range w.order {
			if s := w.segs[o]; !s.acked && s.end <= w.cum {
				s.acked = true
				w.ackedSegs++
			}
		}
	}
	w.sendAck()
}

// look lets the peer process the next n segments of its inbox.
func (w *recWorld) look(n int) {
	for ; n > 0 && len(w.inbox) > 0 && w.Viol == nil; n-- {
		d := w.inbox[0]
		w.inbox = w.inbox[1:]
		t := d.TCP
		off := int64(int32(t.Seq - (w.p.StackISS + 1)))
		if k := w.lose[off]; k > 0 {
			w.lose[off] = k - 1
			w.Faults["drop"]++
			continue
		}
		for int64(len(w.got)) < off+int64(len(t.Payload)) {
			w.got = append(w.got, false)
		}
		for i, b := range t.Payload {
			if b != winByte(w.seed, 0, off+int64(i)) {
				w.Probes["other_property_stream-corrupt"]++
			}
			w.got[off+int64(i)] = true
		}
		old := w.cum
		nu := w.cum
		for nu < int64(len(w.got)) && w.got[nu] {
			nu++
		}
		if nu > old+1 && w.division {
			// ACK division: a receiver may acknowledge any byte it holds, also one
			// in the middle of a segment; such an ACK acknowledges no whole segment
			w.ackTo(old + (nu-old)/2)
			w.Probes["acks_inside_a_segment"]++
		}
		w.ackTo(nu)
	}
}

func (w *recWorld) apply(s Step) {
	if w.dead {
		return
	}
	switch s.Op {
	case "write":
		n := s.C * w.mssLimit
		buf := make([]byte, n)
		for i := range buf {
			buf[i] = winByte(w.seed, 0, w.written+int64(i))
		}
		k, _, _ := w.ep.Write(tcpip.SlicePayload(buf), tcpip.WriteOptions{})
		w.written += int64(k)
		w.Settle()
		w.observe()
	case "lose":
		// the k-th segment of the inbox will not be seen by the peer (B more times)
		if s.A < len(w.inbox) {
			t := w.inbox[s.A].TCP
			off := int64(int32(t.Seq - (w.p.StackISS + 1)))
			w.lose[off] += 1 + s.B
		}
	case "look":
		w.look(s.A)
	case "dupack":
		if w.acksSent > 0 {
			w.sendAck()
		}
	case "winack":
		// same number, different window: not a duplicate
		if w.acksSent > 0 {
			w.win ^= 0x0100
			w.lastAckNo = -1
			w.sendAck()
		}
	case "linkfault":
		// the device refuses the next frame: if that is a retransmission, the next timeout sends it again
		w.S.Link.FailWrites = 1
		w.Probes["link_write_faults_armed"]++
	case "stretch":
		// an application-limited flight acknowledged late and one segment at a time (each ACK restarts the
		// timer with nothing new to send), then silence: the timeouts that follow send one segment each
		for i := 0; i < 1+s.A%3 && w.Viol == nil; i++ {
			w.inAdvance = true
			w.Advance(time.Duration(s.D))
			w.observe()
			w.inAdvance = false
			w.look(1)
		}
		w.Probes["stretched_acks_then_silence"]++
		w.apply(Step{Op: "silent", D: int64(time.Duration(3+s.B%6) * time.Second)})
	case "shutw":
		// the application is done writing: the FIN queues up behind the data like one more segment
		if !w.shut {
			w.shut = true
			w.ep.Shutdown(tcpip.ShutdownWrite)
			w.Settle()
			w.observe()
			w.Probes["write_side_shut_down"]++
		}
	case "bigptb":
		// a router reports "packet too big" with an MTU that is NOT below the one in use (a duplicate, a
		// stale or a forged report): there is nothing to adapt to, and nothing that was sent is thereby
		// acknowledged - the congestion window bounds stay what they are
		if w.lastSeg == nil {
			break
		}
		p := w.p
		mtu := uint32([]int{1500, 9000, 65535}[s.A%3])
		if mtu < w.S.Link.mtu {
			mtu = w.S.Link.mtu
		}
		q := w.lastSeg.F.Data
		if w.cfg.V6 {
			if len(q) > 88 {
				q = q[:88]
			}
			w.InjectIP(true, p.PAddr, p.SAddr, codec.ProtoICMPv6, codec.EncodeICMPv6([]byte(p.PAddr), []byte(p.SAddr), 2, 0, mtu, q), 0)
		} else {
			if len(q) > 48 {
				q = q[:48]
			}
			w.InjectIP(false, p.PAddr, p.SAddr, codec.ProtoICMP, codec.EncodeICMPv4(3, 4, mtu, q), 0)
		}
		w.Probes["packet_too_big_without_a_smaller_mtu"]++
		w.Settle()
		w.observe()
	case "adv":
		w.inAdvance = true
		w.Advance(time.Duration(s.D))
		w.observe()
		w.inAdvance = false
	case "silent":
		// the peer says nothing: check the back-off of the first unacknowledged segment
		w.inAdvance = true
		w.inbox = nil
		start := len(w.order)
		_ = start
		first := w.cum
		sr := w.segs[first]
		base := 0
		if sr != nil {
			base = len(sr.times)
		}
		before := map[int64]int{}
		for o, s := range w.segs {
			before[o] = len(s.times)
		}
		hadTimeout := w.rtoSeen
		need := w.silenceNeeded(s.B == 1)
		refusedBefore := 0
		if sr != nil {
			refusedBefore = sr.refused
		}
		if s.B == 1 {
			// the device refuses the first frame of the silent period - as a rule the first timeout's retransmission.
			// For the stack a refused frame is a lost one: the timer runs on and the next timeout repeats it.
			w.S.Link.FailWrites = 1
			w.Probes["link_write_faults_armed"]++
		}
		w.Advance(time.Duration(s.D))
		w.observe()
		w.inAdvance = false
		w.inbox = nil
		if s.B == 1 {
			if w.S.Link.FailWrites == 0 && sr != nil && sr.refused > refusedBefore {
				w.Probes["timeout_retransmissions_refused_by_the_device"]++
			}
			w.S.Link.FailWrites = 0
		}
		if sr == nil || w.Viol != nil {
			return
		}
		if !hadTimeout && !w.dead && time.Duration(s.D) >= need && len(sr.times)-base-(sr.refused-refusedBefore) <= 0 && w.Probes["fast_retransmits"] == 0 {
			// long enough for the first timeout whatever the stack has measured (silenceNeeded), and for the one
			// after it if the device refused the first: not one retransmission on the wire
			w.Fail("no-retransmission-by-timeout", "", "peer silent for %v with the segment at stream offset %d unacknowledged (no timeout on this connection before): it was never retransmitted", time.Duration(s.D), first)
		}
		ts := sr.times[base:]
		if len(ts) > 0 && base > 0 {
			ts = append([]time.Duration{sr.times[base-1]}, ts...)
		}
		w.Probes["silent_periods"]++
		if len(ts) >= 2 {
			depth := len(ts) - 1
			if depth > 6 {
				depth = 6
			}
			for k := 1; k <= depth; k++ {
				w.Probes["backoff_depth_ge_"+string(rune('0'+k))]++
			}
		}
		for i := 1; i < len(ts); i++ {
			gap := ts[i] - ts[i-1]
			if gap < 200*time.Millisecond && w.Probes["fast_retransmits"] == 0 {
				w.Fail("rto-too-early", "", "peer silent: segment at offset %d retransmitted %v after its previous transmission (minimum 200 ms)", first, gap)
			}
			// doubling is between successive retransmissions; the first timeout is measured from
			// the moment the timer was last (re)started: the segment's previous transmission, or
			// the last ACK that advanced, whichever is later
			if i == 2 && w.Probes["fast_retransmits"] == 0 {
				start := ts[0]
				if w.lastAdvance > start {
					start = w.lastAdvance
				}
				if t1 := ts[1] - start; t1 >= 200*time.Millisecond && gap < 2*t1-time.Millisecond {
					w.Fail("backoff-not-doubling", "", "peer silent: the first timeout for the segment at offset %d came %v after the timer's last restart, the next retransmission only %v later (at %v and %v): the timeout did not double", first, t1, gap, ts[1], ts[2])
				}
			}
			if i >= 3 {
				if prev := ts[i-1] - ts[i-2]; gap < 2*prev && w.Probes["fast_retransmits"] == 0 {
					w.Fail("backoff-not-doubling", "", "peer silent: segment at offset %d transmitted at %v, %v and %v - the interval %v is less than twice the previous one (%v)", first, ts[i-2], ts[i-1], ts[i], gap, prev)
				}
			}
		}
		// exactly one segment per timeout: nothing but the first unacknowledged segment is emitted
		for o, s := range w.segs {
			if o != first && len(s.times) > before[o] && before[o] > 0 {
				w.Fail("more-than-one-segment-per-timeout", "", "peer silent: besides the first unacknowledged segment (offset %d) the segment at offset %d was retransmitted", first, o)
			}
		}
	}
}

// silenceNeeded: how long the peer has to stay silent before a retransmission must have appeared on the wire, on a
// connection that has had no timeout yet. The timer runs since the silence began at the latest; its length is 1 s
// without a round-trip sample and at most srtt+4*rttvar <= 5 * (the largest sample) otherwise, and no sample is larger
// than the age of the connection. If the device refuses the first frame, the one after it comes twice that later.
func (w *recWorld) silenceNeeded(refuse bool) time.Duration {
	b := 5 * time.Since(w.T0)
	if b < time.Second {
		b = time.Second
	}
	need := b + time.Second
	if refuse {
		need = 3*b + time.Second
	}
	if need < 7*time.Second {
		need = 7 * time.Second
	}
	return need
}

func max64(a, b int64) int64 {
	if a > b {
		return a
	}
	return b
}

func (w *recWorld) next() Step {
	r := w.Rng
	switch r.Pick(4, 6, 10, 2, 1, 4, 2, 1, 1, 1, 1) {
	case 10:
		// (link write faults at arbitrary points are not generated here: a refused transmission is invisible on the
		// wire, and the timing clauses of this scenario are read off the wire; see the silent step for the one that is)
		return Step{Op: "adv", D: int64(time.Duration(r.Range(1, 500)) * time.Millisecond)}
	case 9:
		if len(w.inbox) >= 2 {
			return Step{Op: "stretch", A: r.Intn(3), B: r.Intn(6), D: int64(time.Duration(r.Range(60, 400)) * time.Millisecond)}
		}
		return Step{Op: "write", C: r.Range(2, 6)}
	case 8:
		if w.written > 0 && r.Chance(0.5) {
			return Step{Op: "shutw"}
		}
		return Step{Op: "write", C: r.Range(1, 12)}
	case 7:
		return Step{Op: "bigptb", A: r.Intn(3)}
	case 0:
		return Step{Op: "write", C: r.Range(1, []int{3, 12, 40, 200}[r.Intn(4)])}
	case 1:
		if len(w.inbox) > 0 {
			return Step{Op: "lose", A: r.Intn(len(w.inbox)), B: r.Pick(6, 2, 1)}
		}
		return Step{Op: "write", C: r.Range(1, 30)}
	case 2:
		return Step{Op: "look", A: r.Range(1, 1+len(w.inbox))}
	case 3:
		return Step{Op: "dupack"}
	case 4:
		return Step{Op: "winack"}
	case 5:
		return Step{Op: "adv", D: int64(time.Duration(r.Range(1, []int{50, 500, 2000}[r.Intn(3)])) * time.Millisecond)}
	}
	st := Step{Op: "silent", D: int64(time.Duration(r.Range(1, 130)) * time.Second)}
	if !w.rtoSeen && r.Chance(0.2) {
		// the only link write fault of this scenario: placed where the wire-read timing clauses can account for it
		// (the refused frame is recorded as a transmission at its instant)
		st.B = 1
		if need := w.silenceNeeded(true); st.D < int64(need) && need < 120*time.Second {
			st.D = int64(need + time.Duration(r.Range(0, 10))*time.Second)
		}
	}
	return st
}

func (scRecovery) Run(t *testing.T, prop string, seed uint64, cfgRaw json.RawMessage, steps []Step, tape []byte, trace bool) *RunOut {
	var cfg WinCfg
	json.Unmarshal(cfgRaw, &cfg)
	o := &RunOut{Cfg: cfgRaw}
	bubble(t, func() {
		ww := &winWorld{PeerWorld: NewPeerWorld(seed, uint32(cfg.MTU), NodeOpts{SACK: cfg.SACK, CC: cfg.CC}), cfg: cfg}
		w := &recWorld{winWorld: ww, segs: map[int64]*segRec{}, lose: map[int64]int{}, lastAckNo: -1, win: 65535}
		w.division = sim.Mix(seed^0xd1f)%4 == 0
		defer w.Close()
		w.TraceOn = trace
		w.YieldP = cfg.YieldP
		if steps != nil {
			w.Replay, w.Tape = true, tape
		}
		if !w.establish() {
			w.Probes["establish_failed"]++
			finish(w.World, o)
			return
		}
		// a frame the device refused was transmitted as far as the stack is concerned (and lost): it counts as a
		// transmission of its segment, the peer never sees it
		w.OnLinkError = func(f *Frame) {
			d := NewMonitor().Check(f)
			if d == nil || d.TCP == nil || d.TCP.SrcPort != w.p.SPort || d.TCP.DstPort != w.p.PPort || d.TCP.Flags&(codec.FlagSYN|codec.FlagRST) != 0 {
				return
			}
			isFin := d.TCP.Flags&codec.FlagFIN != 0 && len(d.TCP.Payload) == 0
			if len(d.TCP.Payload) == 0 && !isFin {
				return
			}
			off := int64(int32(d.TCP.Seq - (w.p.StackISS + 1)))
			sr := w.segs[off]
			if sr == nil {
				end := off + int64(len(d.TCP.Payload))
				if isFin {
					end = off + 1
				}
				sr = &segRec{off: off, end: end}
				w.segs[off] = sr
				w.order = append(w.order, off)
			} else {
				w.Probes["retransmissions"]++
				if w.inAdvance {
					// a retransmission by timeout, like the ones observe() sees on the wire: the stack is in
					// timeout recovery from here on, whether or not the frame left the device
					w.rtoSeen = true
					w.frActive = false
					w.Probes["rto_retransmissions"]++
					if e := w.maxSent(); e > w.recover {
						w.recover = e
					}
				}
			}
			sr.times = append(sr.times, f.At)
			sr.refused++
			w.Probes["transmissions_refused_by_the_device"]++
		}
		if cfg.SmallWin > 0 {
			if v := (cfg.SmallWin * w.mssLimit) >> uint(w.ws); v > 0 && v < 65535 {
				w.win = uint16(v)
				w.Probes["window_limited_receiver"]++
			}
		}
		if steps == nil {
			for i := 0; i < cfg.MaxSteps && w.Viol == nil; i++ {
				s := w.next()
				w.Steps = append(w.Steps, s)
				w.apply(s)
				w.NSteps++
			}
		} else {
			for _, s := range steps {
				w.apply(s)
				w.NSteps++
				if w.Viol != nil {
					break
				}
			}
			w.Steps = steps
		}
		w.peerNxt = w.cum
		w.crossProbes()
		w.OnEmit = nil
		w.ep.Close()
		w.Advance(70 * time.Second)
		finish(w.World, o)
		if w.Replay {
			o.Tape = tape
		}
		o.Nontrivial = w.Probes["retransmissions"] > 0 && w.acksSent > 0
	})
	return o
}

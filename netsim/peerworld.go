package netsim

import (
	"verif/netsim/codec"
	"verif/sim"

	"github.com/brewlin/net-protocol/pkg/rand"
	tcpip "github.com/brewlin/net-protocol/protocol"
	"github.com/brewlin/net-protocol/protocol/network/ipv4"
	"github.com/brewlin/net-protocol/protocol/network/ipv6"
)

// PeerWorld is one real stack (node S, addresses A4/A6) facing a scripted raw
// peer: whatever the stack emits stays in its link's queue until the scenario
// takes it; whatever the peer says is built with the independent codec and
// injected at the link layer.
type PeerWorld struct {
	*World
	S    *Node
	Mon  *Monitor
	Seen []*Decoded // decoded emissions not yet taken by the scenario
	seed uint64
}

func NewPeerWorld(seed uint64, mtu uint32, o NodeOpts) *PeerWorld {
	w := &PeerWorld{World: NewWorld(seed), seed: seed}
	rand.VerifSeed(sim.Mix(seed ^ 0x7a5d))
	ipv4.VerifReset()
	if sim.Mix(seed^0xfd11)%6 == 0 {
		o.Fd = true // swarm parameter: one run in six talks through the real fd-based Ethernet endpoint
	}
	w.S = w.NewNode("S", mtu, A4, A6, -1, o)
	w.Mon = NewMonitor()
	w.peerMon = true
	w.AttachMonitor(w.Mon, func(d *Decoded) { w.Seen = append(w.Seen, d) })
	w.Settle()
	return w
}

// Take returns and clears the decoded frames the stack has emitted.
func (w *PeerWorld) Take() []*Decoded {
	s := w.Seen
	w.Seen = nil
	w.S.Link.Queue = nil
	return s
}

// Inject4 / Inject6 hand a network-layer packet to the stack.
func (w *PeerWorld) Inject4(pkt []byte, mode int) {
	w.Inject(w.S.Link, ipv4.ProtocolNumber, pkt, "", "", mode)
}
func (w *PeerWorld) Inject6(pkt []byte, mode int) {
	w.Inject(w.S.Link, ipv6.ProtocolNumber, pkt, "", "", mode)
}

// InjectIP wraps a transport payload for the given address family and injects it.
func (w *PeerWorld) InjectIP(v6 bool, src, dst tcpip.Address, proto uint8, payload []byte, mode int) {
	if v6 {
		next := proto
		w.Inject6(codec.IPv6([]byte(src), []byte(dst), next, 64, payload), mode)
		return
	}
	w.ipid++
	w.Inject4(codec.IPv4([]byte(src), []byte(dst), proto, w.ipid, 64, false, false, 0, payload), mode)
}

package netsim

import (
	"bytes"
	"encoding/json"
	"testing"
	"time"

	"verif/netsim/codec"
	"verif/sim"

	"github.com/brewlin/net-protocol/pkg/rand"
	"github.com/brewlin/net-protocol/pkg/waiter"
	tcpip "github.com/brewlin/net-protocol/protocol"
	"github.com/brewlin/net-protocol/protocol/network/arp"
	"github.com/brewlin/net-protocol/protocol/network/ipv4"
	"github.com/brewlin/net-protocol/protocol/network/ipv6"
	"github.com/brewlin/net-protocol/protocol/transport/ping"
	"github.com/brewlin/net-protocol/protocol/transport/tcp"
	"github.com/brewlin/net-protocol/protocol/transport/udp"
	"github.com/brewlin/net-protocol/stack"
)

// scAddr: C06's addressing scenario. One real stack with three interfaces (two
// Ethernet-like ones that need address resolution, as simulated NICs or as the
// real fd-based endpoint over a simulated descriptor, and one point-to-point),
// several addresses per interface, and a route table drawn per run: a random
// subset of direct, gateway, overlapping and default routes in random order.
// The stack originates UDP datagrams (unbound, bound to the wildcard, bound to
// a specific address) and TCP connections, and answers echo requests and SYNs;
// every neighbour answers resolution requests with a link address of its own.
// Each frame is decoded by the independent codec, and its interface, source,
// destination, ports and link addresses are compared with a reference computed
// from the statement (first matching route entry).
type scAddr struct{}

func init() {
	scenarios["addr"] = scAddr{}
	propScenario["C06"] = "addr"
}

type AddrCfg struct {
	Fd       [2]bool `json:"fd_based"` // NIC 1 / NIC 2 is the real fd-based Ethernet endpoint
	Routes   []int   `json:"routes"`   // indices into the route pool, in table order
	MaxSteps int     `json:"max_steps"`
}

type adRoute struct {
	dst, mask, gw string
	nic           int
}

var adRoutes = []adRoute{
	{"\x0a\x00\x01\x00", "\xff\xff\xff\x00", "", 1},
	{"\x0a\x00\x02\x00", "\xff\xff\xff\x00", "", 2},
	{"\x0a\x00\x03\x00", "\xff\xff\xff\x00", "", 3},
	{"\x0a\x09\x00\x00", "\xff\xff\x00\x00", "\x0a\x00\x02\xfe", 2},
	{"\x0a\x09\x01\x00", "\xff\xff\xff\x00", "\x0a\x00\x01\xfe", 1},
	{"\x00\x00\x00\x00", "\x00\x00\x00\x00", "\x0a\x00\x01\xfe", 1},
	{"\x00\x00\x00\x00", "\x00\x00\x00\x00", "\x0a\x00\x02\xfe", 2},
	{"\x0a\x00\x00\x00", "\xff\x00\x00\x00", "\x0a\x00\x02\xfd", 2},
	{v6("fd00:1::"), v6mask(64), "", 1},
	{v6("fd00:2::"), v6mask(64), "", 2},
	{v6("::"), v6mask(0), v6("fd00:1::fe"), 1},
	{v6("::"), v6mask(0), v6("fd00:2::fe"), 2},
	// two networks behind routers that carry the same address on two different links (every home LAN's
	// router is 192.168.1.1): one next-hop address, one neighbour per interface
	{"\x0a\x0a\x00\x00", "\xff\xff\x00\x00", "\xc0\xa8\x01\x01", 1},
	{"\x0a\x0b\x00\x00", "\xff\xff\x00\x00", "\xc0\xa8\x01\x01", 2},
}

// adOrder: table order "as an administrator writes it" (specific before general); indices into adRoutes
var adOrder = []int{0, 1, 2, 3, 4, 12, 13, 5, 6, 7, 8, 9, 10, 11}

// v6 builds the few IPv6 addresses used here: "fd00:N::H" or "2001:db8::H" or "::".
func v6(s string) string {
	b := make([]byte, 16)
	switch {
	case s == "::":
	case len(s) >= 7 && s[:5] == "fd00:":
		b[0], b[1] = 0xfd, 0
		b[3] = s[5] - '0'
		if len(s) > 8 {
			b[15] = hexv(s[8:])
		}
	case len(s) >= 10 && s[:10] == "2001:db8::":
		b[0], b[1], b[2], b[3] = 0x20, 0x01, 0x0d, 0xb8
		b[15] = hexv(s[10:])
	}
	return string(b)
}

func hexv(s string) byte {
	var v byte
	for _, c := range []byte(s) {
		switch {
		case c >= '0' && c <= '9':
			v = v<<4 | (c - '0')
		case c >= 'a' && c <= 'f':
			v = v<<4 | (c - 'a' + 10)
		}
	}
	return v
}

func v6mask(bits int) string {
	b := make([]byte, 16)
	for i := 0; i < bits/8; i++ {
		b[i] = 0xff
	}
	return string(b)
}

var (
	adNICAddrs = [][]tcpip.Address{
		nil,
		{"\x0a\x00\x01\x01", "\x0a\x00\x01\x02", tcpip.Address(v6("fd00:1::1"))},
		{"\x0a\x00\x02\x01", tcpip.Address(v6("fd00:2::1"))},
		{"\x0a\x00\x03\x01"},
	}
	adMAC = []tcpip.LinkAddress{"", "\x02\xaa\x00\x00\x01\x01", "\x02\xaa\x00\x00\x02\x01", ""}
	adDst = []tcpip.Address{"\x0a\x00\x01\x07", "\x0a\x00\x01\xfe", "\x0a\x00\x02\x07", "\x0a\x00\x03\x07", "\x0a\x09\x00\x05", "\x0a\x09\x01\x05",
		"\x08\x08\x08\x08", "\x0a\xc8\x00\x01", tcpip.Address(v6("fd00:1::7")), tcpip.Address(v6("fd00:2::7")), tcpip.Address(v6("2001:db8::5")),
		"\x0a\x0a\x00\x05", "\x0a\x0b\x00\x05"}
	adLocal = []tcpip.Address{"\x0a\x00\x01\x01", "\x0a\x00\x01\x02", "\x0a\x00\x02\x01", "\x0a\x00\x03\x01", tcpip.Address(v6("fd00:1::1")), tcpip.Address(v6("fd00:2::1"))}
)

func (scAddr) GenCfg(rng *sim.Rand, tier, prop, variant string) json.RawMessage {
	c := AddrCfg{Fd: [2]bool{rng.Chance(0.4), rng.Chance(0.4)}, MaxSteps: rng.Range(8, 60)}
	for _, i := range adOrder {
		if rng.Chance(0.75) {
			c.Routes = append(c.Routes, i)
		}
	}
	if rng.Chance(0.7) {
		// usually specific before general, as an administrator writes it; otherwise any order
		// (then a default route may shadow everything behind it)
	} else {
		for i := len(c.Routes) - 1; i > 0; i-- {
			j := rng.Intn(i + 1)
			c.Routes[i], c.Routes[j] = c.Routes[j], c.Routes[i]
		}
	}
	b, _ := json.Marshal(c)
	return b
}

type addrWorld struct {
	*World
	cfg   AddrCfg
	s     *stack.Stack
	links [4]*Link
	seed  uint64
	seen  []*Decoded // decoded emissions since the current operation began
	todo  []*Decoded // emissions the neighbours have not looked at yet
	nop   int
	socks map[int]tcpip.Endpoint // bound UDP sockets by (kind, index)
	lep   tcpip.Endpoint
	// addresses currently removed from their interface (the first IPv4 address of NIC 1 comes and goes)
	removed map[tcpip.Address]bool
}

// macOf is the link address of neighbour a on NIC nic.
func macOf(a tcpip.Address, nic int) tcpip.LinkAddress {
	h := sim.Mix(uint64(nic)<<40 ^ uint64(a[len(a)-1])<<8 ^ uint64(a[len(a)-2])<<16 ^ uint64(len(a)))
	return tcpip.LinkAddress([]byte{2, 0xcc, byte(nic), byte(h >> 8), byte(h >> 16), a[len(a)-1]})
}

func (w *addrWorld) nicHas(nic int, a tcpip.Address) bool {
	for _, x := range adNICAddrs[nic] {
		if x == a && !w.removed[x] {
			return true
		}
	}
	return false
}

func (w *addrWorld) nicHasProto(nic int, n int) bool {
	for _, x := range adNICAddrs[nic] {
		if len(x) == n && !w.removed[x] {
			return true
		}
	}
	return false
}

func routeMatches(r adRoute, a tcpip.Address) bool {
	if len(a) != len(r.dst) {
		return false
	}
	for i := 0; i < len(a); i++ {
		if a[i]&r.mask[i] != r.dst[i] {
			return false
		}
	}
	return true
}

// choose is the reference: the first entry of the table, in order, that matches
// the destination and whose interface can supply the source (the bound local
// address if there is one, any address of the family otherwise).
func (w *addrWorld) choose(dst, local tcpip.Address) (adRoute, bool) {
	for _, i := range w.cfg.Routes {
		r := adRoutes[i]
		if !routeMatches(r, dst) {
			continue
		}
		if local != "" {
			if !w.nicHas(r.nic, local) {
				continue
			}
		} else if !w.nicHasProto(r.nic, len(dst)) {
			continue
		}
		return r, true
	}
	return adRoute{}, false
}

// neighbours answer every resolution request they see, on the link it was asked on.
func (w *addrWorld) service() {
	for iter := 0; iter < 6; iter++ {
		w.Settle()
		todo := w.todo
		w.todo = nil
		progressed := false
		for _, d := range todo {
			l := w.Links[d.F.Link]
			nic := d.F.Link + 1
			switch {
			case d.ARP != nil && d.ARP.Op == 1:
				tpa := tcpip.Address(d.ARP.TPA)
				mac := macOf(tpa, nic)
				pkt := codec.EncodeARP(2, []byte(mac), d.ARP.TPA, d.ARP.SHA, d.ARP.SPA)
				w.Inject(l, arp.ProtocolNumber, pkt, mac, tcpip.LinkAddress(d.ARP.SHA), 0)
				w.Probes["resolution_requests_answered"]++
				progressed = true
			case d.ICMP != nil && d.IP != nil && d.IP.V6 && d.ICMP.Type == 135 && len(d.ICMP.Body) >= 20:
				tgt := tcpip.Address(d.ICMP.Body[4:20])
				mac := macOf(tgt, nic)
				body := append(append([]byte(nil), []byte(tgt)...), 2, 1)
				body = append(body, []byte(mac)...)
				msg := codec.EncodeICMPv6([]byte(tgt), d.IP.Src, 136, 0, 0x60000000, body)
				w.Inject(l, ipv6.ProtocolNumber, codec.IPv6([]byte(tgt), d.IP.Src, codec.ProtoICMPv6, 255, msg), mac, adMAC[nic], 0)
				w.Probes["neighbour_solicitations_answered"]++
				progressed = true
			}
		}
		if !progressed {
			break
		}
	}
	w.Settle()
}

func (w *addrWorld) begin() {
	w.Settle()
	w.seen, w.todo = nil, nil
	for _, l := range w.Links {
		l.Queue = nil
	}
}

// expectFrame checks the one frame that carries this operation's transport message.
func (w *addrWorld) checkOut(what string, d *Decoded, r adRoute, dst, local tcpip.Address) {
	f := d.F
	nic := f.Link + 1
	if nic != r.nic {
		w.Fail("wrong-interface", "", "%s to % x left through NIC %d; the first matching route entry (% x/% x via % x) names NIC %d", what, []byte(dst), nic, r.dst, r.mask, r.gw, r.nic)
		return
	}
	src := tcpip.Address(d.IP.Src)
	if local != "" && src != local {
		w.Fail("wrong-source-address", "", "%s from a socket bound to % x carries source address % x", what, []byte(local), d.IP.Src)
	}
	if !w.nicHas(nic, src) {
		w.Fail("wrong-source-address", "", "%s to % x left through NIC %d with source % x, which is not an address of that interface", what, []byte(dst), nic, d.IP.Src)
	}
	if !bytes.Equal(d.IP.Dst, []byte(dst)) {
		w.Fail("wrong-addressing", "", "%s for % x is addressed to % x", what, []byte(dst), d.IP.Dst)
	}
	if adMAC[nic] != "" {
		hop := tcpip.Address(r.gw)
		if hop == "" {
			hop = dst
		}
		if want := macOf(hop, nic); f.DstMAC != want {
			w.Fail("wrong-link-address", "", "%s for % x (next hop % x on NIC %d) was sent to link address % x; the next hop resolved to % x", what, []byte(dst), []byte(hop), nic, []byte(f.DstMAC), []byte(want))
		} else {
			w.Probes["destination_mac_checked"]++
		}
		if f.SrcMAC != adMAC[nic] {
			w.Fail("wrong-source-link-address", "", "%s left NIC %d from link address % x, the interface has % x", what, nic, []byte(f.SrcMAC), []byte(adMAC[nic]))
		}
	}
	if r.gw != "" {
		w.Probes["sent_through_gateway"]++
	} else {
		w.Probes["sent_on_link"]++
	}
}

func adPayload(seed uint64, id, n int) []byte {
	b := make([]byte, n)
	for i := range b {
		b[i] = byte(sim.Mix(seed^uint64(id)<<24^uint64(i)) >> 11)
	}
	if n >= 4 {
		b[0], b[1], b[2], b[3] = 0xad, byte(id>>16), byte(id>>8), byte(id)
	}
	return b
}

func (w *addrWorld) netOf(a tcpip.Address) tcpip.NetworkProtocolNumber {
	if len(a) == 16 {
		return ipv6.ProtocolNumber
	}
	return ipv4.ProtocolNumber
}

// reconnSend: one long-lived UDP socket is connected to a peer, sends without naming a
// destination, is connected to another peer, sends again, ...: every datagram goes to the
// current peer's address and - on Ethernet - to the link address resolved for *its* next hop.
func (w *addrWorld) reconnSend(s Step) {
	peers := []tcpip.Address{"\x0a\x00\x01\x07", "\x0a\x00\x01\x08", "\x0a\x00\x02\x07", "\x0a\x00\x02\x08", "\x0a\x09\x00\x05", "\x0a\x09\x01\x05", "\x08\x08\x08\x08"}
	dst := peers[s.A%len(peers)]
	ep := w.socks[500]
	if ep == nil {
		var err *tcpip.Error
		ep, err = w.s.NewEndpoint(udp.ProtocolNumber, ipv4.ProtocolNumber, &waiter.Queue{})
		must(err, "udp endpoint")
		if e := ep.Bind(tcpip.FullAddress{Port: 7500}, nil); e != nil {
			ep.Close()
			return
		}
		w.socks[500] = ep
	}
	w.nop++
	payload := adPayload(w.seed, w.nop, 4+int(s.D)%600)
	w.begin()
	r, routed := w.choose(dst, "")
	if e := ep.Connect(tcpip.FullAddress{Addr: dst, Port: 9200}); e != nil {
		w.Probes["reconnect_failed"]++
		return
	}
	w.service()
	var err *tcpip.Error
	for try := 0; try < 4; try++ {
		var ch <-chan struct{}
		_, ch, err = ep.Write(tcpip.SlicePayload(append([]byte(nil), payload...)), tcpip.WriteOptions{})
		w.service()
		if err != tcpip.ErrWouldBlock || ch == nil {
			break
		}
	}
	w.Probes["sends_after_reconnect"]++
	if err != nil || !routed {
		return
	}
	for _, d := range w.seen {
		if d.UDP != nil && bytes.Equal(d.UDP.Payload, payload) {
			w.checkOut("datagram of a re-connected socket", d, r, dst, "")
			if d.UDP.DstPort != 9200 || d.UDP.SrcPort != 7500 {
				w.Fail("wrong-addressing", "", "datagram of a socket bound to 7500 and connected to port 9200 carries ports %d>%d", d.UDP.SrcPort, d.UDP.DstPort)
			}
			w.Probes["udp_frames_checked"]++
			return
		}
	}
	w.Fail("wrong-addressing", "", "Write on a socket connected to % x succeeded and no frame carries the datagram", []byte(dst))
}

func (w *addrWorld) udpSend(s Step) {
	dst := adDst[s.A%len(adDst)]
	kind := s.B % 4
	var local tcpip.Address
	cnic := 0
	var port uint16
	w.nop++
	n := int(s.D)
	if n < 4 {
		n = 4 // the marker that ties a frame to this operation
	}
	payload := adPayload(w.seed, w.nop, n)
	var ep tcpip.Endpoint
	key := -1
	switch kind {
	case 1:
		port = 7000 + uint16(s.C%2)
		key = 100 + int(port) + 10000*len(dst)
	case 2:
		local = adLocal[s.C%len(adLocal)]
		if len(local) != len(dst) {
			return
		}
		port = 7100 + uint16(s.C%len(adLocal))
		key = 200 + int(port)
	case 3:
		// bound to a port only, then connected through an explicit interface to a neighbour
		// there; a later sendto elsewhere is routed by the table, not by that interface
		if len(dst) != 4 {
			return
		}
		cnic = 1 + s.C%2
		port = 7200 + uint16(cnic)
		key = 300 + cnic
	}
	if local != "" && w.removed[local] {
		return // (a socket bound to an address that has been removed: documented to linger, not judged)
	}
	if key >= 0 && w.socks[key] != nil {
		ep = w.socks[key]
	} else {
		var err *tcpip.Error
		ep, err = w.s.NewEndpoint(udp.ProtocolNumber, w.netOf(dst), &waiter.Queue{})
		must(err, "udp endpoint")
		if kind != 0 {
			if e := ep.Bind(tcpip.FullAddress{Addr: local, Port: port}, nil); e != nil {
				ep.Close()
				w.Probes["bind_failed"]++
				return
			}
			if kind == 3 {
				peer := tcpip.Address([]byte{10, 0, byte(cnic), 9})
				w.begin()
				e := ep.Connect(tcpip.FullAddress{NIC: tcpip.NICID(cnic), Addr: peer, Port: 9100})
				w.service()
				if e != nil {
					ep.Close()
					w.Probes["connect_through_interface_failed"]++
					return
				}
				w.Probes["sockets_connected_through_an_interface"]++
			}
			w.socks[key] = ep
		} else {
			defer ep.Close()
		}
	}
	w.begin()
	r, routed := w.choose(dst, local)
	var err *tcpip.Error
	for try := 0; try < 4; try++ {
		var ch <-chan struct{}
		_, ch, err = ep.Write(tcpip.SlicePayload(append([]byte(nil), payload...)), tcpip.WriteOptions{To: &tcpip.FullAddress{Addr: dst, Port: 9000}})
		w.service()
		if err != tcpip.ErrWouldBlock || ch == nil {
			break
		}
		w.Probes["sends_waited_for_resolution"]++
	}
	w.Probes["udp_sends"]++
	var mine []*Decoded
	for _, d := range w.seen {
		if d.UDP != nil && bytes.Equal(d.UDP.Payload, payload) {
			mine = append(mine, d)
		}
	}
	switch {
	case !routed:
		w.Probes["no_route"]++
		if len(mine) > 0 {
			w.Fail("wrong-interface", "", "datagram to % x (socket bound to % x) was sent through NIC %d although no route entry matches", []byte(dst), []byte(local), mine[0].F.Link+1)
		}
	case err != nil:
		if len(mine) > 0 {
			w.Fail("wrong-addressing", "", "Write to % x failed (%s) and yet the datagram was put on the wire", []byte(dst), err.String())
		}
		w.Probes["routed_send_failed_"+err.String()]++
	case len(mine) != 1:
		w.Fail("wrong-addressing", "", "Write of a %d-byte datagram to % x succeeded and %d frames carry it", len(payload), []byte(dst), len(mine))
	default:
		d := mine[0]
		w.checkOut("UDP datagram", d, r, dst, local)
		if d.UDP.DstPort != 9000 {
			w.Fail("wrong-addressing", "", "datagram for port 9000 carries destination port %d", d.UDP.DstPort)
		}
		if kind != 0 && d.UDP.SrcPort != port {
			w.Fail("wrong-addressing", "", "datagram from a socket bound to port %d carries source port %d", port, d.UDP.SrcPort)
		}
		if kind == 0 && d.UDP.SrcPort < 16000 {
			w.Fail("wrong-addressing", "", "datagram from an unbound socket carries source port %d, outside the ephemeral range", d.UDP.SrcPort)
		}
		w.Probes["udp_frames_checked"]++
	}
}

// pingSend: an application sends an echo request through a ping socket (the stack fills in the identifier
// and the checksum): the frame is addressed like any other packet and must verify like any other.
func (w *addrWorld) pingSend(s Step) {
	dst := adDst[s.A%len(adDst)]
	v6 := len(dst) == 16
	proto := tcpip.TransportProtocolNumber(ping.ProtocolNumber4)
	if v6 {
		proto = ping.ProtocolNumber6
	}
	ep, err := w.s.NewEndpoint(proto, w.netOf(dst), &waiter.Queue{})
	if err != nil {
		w.Probes["ping_endpoint_unavailable"]++
		return
	}
	defer ep.Close()
	w.nop++
	data := adPayload(w.seed, w.nop, int(s.D)+4)
	msg := make([]byte, 8+len(data))
	msg[0] = 8
	if v6 {
		msg[0] = 128
	}
	msg[6], msg[7] = byte(s.C>>8), byte(s.C)
	copy(msg[8:], data)
	if s.C%3 == 0 {
		// an application ported from raw sockets fills in a checksum of its own: the stack computes the real one
		msg[2], msg[3] = byte(s.C>>3)|1, byte(s.C>>5)
		w.Probes["ping_writes_with_a_checksum_filled_in"]++
	}
	w.begin()
	r, routed := w.choose(dst, "")
	var e *tcpip.Error
	for try := 0; try < 4; try++ {
		var ch <-chan struct{}
		_, ch, e = ep.Write(tcpip.SlicePayload(append([]byte(nil), msg...)), tcpip.WriteOptions{To: &tcpip.FullAddress{Addr: dst}})
		w.service()
		if e != tcpip.ErrWouldBlock || ch == nil {
			break
		}
	}
	w.Probes["echo_requests_sent_by_ping_sockets"]++
	var mine []*Decoded
	for _, d := range w.seen {
		if d.ICMP != nil && bytes.Equal(d.ICMP.Data, data) {
			mine = append(mine, d)
		}
	}
	switch {
	case !routed || e != nil:
		if len(mine) > 0 {
			w.Fail("wrong-addressing", "", "echo request to % x: no route or failed write (%v), and yet it was put on the wire", []byte(dst), e)
		}
	case len(mine) != 1:
		w.Fail("wrong-addressing", "", "echo request to % x written successfully, %d frames carry it", []byte(dst), len(mine))
	default:
		w.checkOut("echo request", mine[0], r, dst, "")
		if mine[0].ICMP.Seq != uint16(s.C) {
			w.Fail("wrong-addressing", "", "echo request with sequence number %d left with %d", uint16(s.C), mine[0].ICMP.Seq)
		}
		w.Probes["ping_frames_checked"]++
	}
}

// inbound: a neighbour (on-link, or a far host whose packets arrive through the
// gateway) sends something the stack answers; the answer mirrors the addresses.
func (w *addrWorld) inbound(s Step) {
	nic := 1 + s.A%3
	l := w.links[nic]
	locals := adNICAddrs[nic]
	local := locals[s.B%len(locals)]
	if w.removed[local] {
		return
	}
	v6 := len(local) == 16
	var remote tcpip.Address
	var viaMAC tcpip.LinkAddress
	if v6 {
		remote = tcpip.Address(v6addr(nic, s.C))
	} else {
		remote = tcpip.Address([]byte{10, 0, byte(nic), byte(7 + s.C%3)})
		if s.C%4 == 3 {
			remote = "\x08\x08\x04\x04" // a far host: its packets come from the gateway's link address
		}
	}
	viaMAC = macOf(remote, nic)
	if !v6 && remote[0] == 8 {
		viaMAC = macOf(tcpip.Address([]byte{10, 0, byte(nic), 0xfe}), nic)
	}
	w.nop++
	w.begin()
	kind := int(s.D) % 4
	ident, seq := uint16(0x5000+w.nop), uint16(w.nop)
	data := adPayload(w.seed, w.nop, 4+(w.nop*7)%50)
	sport, dport := uint16(30000+w.nop%1000), uint16(81)
	iss := uint32(sim.Mix(w.seed ^ uint64(w.nop)))
	var pkt []byte
	switch kind {
	case 0: // echo request
		pkt = codec.EncodeEcho([]byte(remote), []byte(local), v6, false, ident, seq, data)
	case 1: // SYN to a closed port
		pkt = codec.EncodeTCP([]byte(remote), []byte(local), &codec.TCPSeg{SrcPort: sport, DstPort: dport, Seq: iss, Flags: codec.FlagSYN, Window: 65535})
	case 2: // SYN to the listener (IPv4 only: the listener is an IPv4 socket)
		if v6 {
			return
		}
		dport = 80
		pkt = codec.EncodeTCP([]byte(remote), []byte(local), &codec.TCPSeg{SrcPort: sport, DstPort: dport, Seq: iss, Flags: codec.FlagSYN, Window: 65535, Opts: codec.PadOpts(codec.OptMSS(1400))})
	case 3: // ACK out of the blue
		pkt = codec.EncodeTCP([]byte(remote), []byte(local), &codec.TCPSeg{SrcPort: sport, DstPort: dport, Seq: iss, Ack: iss ^ 0x5555, Flags: codec.FlagACK, Window: 65535})
	}
	proto := uint8(codec.ProtoTCP)
	if kind == 0 {
		proto = codec.ProtoICMP
		if v6 {
			proto = codec.ProtoICMPv6
		}
	}
	if v6 {
		w.Inject(l, ipv6.ProtocolNumber, codec.IPv6([]byte(remote), []byte(local), proto, 64, pkt), viaMAC, adMAC[nic], 0)
	} else {
		w.ipid++
		w.Inject(l, ipv4.ProtocolNumber, codec.IPv4([]byte(remote), []byte(local), proto, w.ipid, 64, false, false, 0, pkt), viaMAC, adMAC[nic], 0)
	}
	w.service()
	w.Advance(10 * time.Millisecond)
	w.service()
	w.Probes["inbound_probes"]++
	// the answer
	var ans []*Decoded
	for _, d := range w.seen {
		switch {
		case kind == 0 && d.ICMP != nil && (d.ICMP.Type == 0 || d.ICMP.Type == 129):
			ans = append(ans, d)
		case kind != 0 && d.TCP != nil && d.TCP.DstPort == sport:
			ans = append(ans, d)
		}
	}
	if len(ans) == 0 {
		w.Probes["inbound_probe_unanswered"]++ // whether it must be answered belongs to C03/C13
		return
	}
	for _, d := range ans {
		what := "the answer to a packet from " + string(hexs(remote)) + " to " + string(hexs(local))
		if d.F.Link+1 != nic {
			w.Fail("wrong-interface", "", "%s arriving on NIC %d left through NIC %d", what, nic, d.F.Link+1)
		}
		if !bytes.Equal(d.IP.Src, []byte(local)) || !bytes.Equal(d.IP.Dst, []byte(remote)) {
			w.Fail("wrong-addressing", "", "%s goes from % x to % x", what, d.IP.Src, d.IP.Dst)
		}
		if d.TCP != nil && (d.TCP.SrcPort != dport || d.TCP.DstPort != sport) {
			w.Fail("wrong-addressing", "", "%s (ports %d>%d) carries ports %d>%d", what, sport, dport, d.TCP.SrcPort, d.TCP.DstPort)
		}
		if d.ICMP != nil && (d.ICMP.Ident != ident || d.ICMP.Seq != seq || !bytes.Equal(d.ICMP.Data, data)) {
			w.Fail("wrong-addressing", "", "%s does not mirror identifier, sequence number and payload of the request", what)
		}
		if adMAC[nic] != "" {
			if d.F.DstMAC != viaMAC {
				w.Fail("wrong-link-address", "", "%s was sent to link address % x; the packet it answers came from % x", what, []byte(d.F.DstMAC), []byte(viaMAC))
			} else {
				w.Probes["reply_mac_checked"]++
			}
			if d.F.SrcMAC != adMAC[nic] {
				w.Fail("wrong-source-link-address", "", "%s left NIC %d from link address % x, the interface has % x", what, nic, []byte(d.F.SrcMAC), []byte(adMAC[nic]))
			}
		}
		w.Probes["answers_checked"]++
	}
	if kind == 2 {
		// abort the half-open connection
		for _, d := range ans {
			if d.TCP.Flags&codec.FlagSYN != 0 {
				rst := codec.EncodeTCP([]byte(remote), []byte(local), &codec.TCPSeg{SrcPort: sport, DstPort: dport, Seq: iss + 1, Flags: codec.FlagRST, Window: 0})
				w.ipid++
				w.Inject(l, ipv4.ProtocolNumber, codec.IPv4([]byte(remote), []byte(local), codec.ProtoTCP, w.ipid, 64, false, false, 0, rst), viaMAC, adMAC[nic], 0)
				break
			}
		}
	}
}

func v6addr(nic, k int) string {
	b := []byte(v6("fd00:1::7"))
	b[3] = byte(nic)
	b[15] = byte(7 + k%3)
	return string(b)
}

func hexs(a tcpip.Address) []byte {
	const d = "0123456789abcdef"
	var o []byte
	for _, c := range []byte(a) {
		o = append(o, d[c>>4], d[c&15])
	}
	return o
}

// connect: an active TCP open; the SYN is addressed like a datagram would be.
func (w *addrWorld) connect(s Step) {
	dst := adDst[s.A%len(adDst)]
	var local tcpip.Address
	if s.B%3 == 2 {
		local = adLocal[s.C%len(adLocal)]
		if len(local) != len(dst) || w.removed[local] {
			return // (binding to a removed address that still lingers may succeed: documented, not judged)
		}
	}
	w.nop++
	ep, err := w.s.NewEndpoint(tcp.ProtocolNumber, w.netOf(dst), &waiter.Queue{})
	must(err, "tcp endpoint")
	defer func() {
		ep.Close()
		w.Settle()
	}()
	if local != "" {
		if e := ep.Bind(tcpip.FullAddress{Addr: local}, nil); e != nil {
			return
		}
	}
	w.begin()
	r, routed := w.choose(dst, local)
	dport := uint16(6000 + w.nop%500)
	e := ep.Connect(tcpip.FullAddress{Addr: dst, Port: dport})
	w.service()
	w.Advance(5 * time.Millisecond)
	w.service()
	w.Probes["tcp_connects"]++
	var syns []*Decoded
	for _, d := range w.seen {
		if d.TCP != nil && d.TCP.DstPort == dport && d.TCP.Flags&codec.FlagSYN != 0 {
			syns = append(syns, d)
		}
	}
	switch {
	case !routed:
		if len(syns) > 0 {
			w.Fail("wrong-interface", "", "SYN to % x was sent through NIC %d although no route entry matches", []byte(dst), syns[0].F.Link+1)
		}
		w.Probes["no_route"]++
	case e != tcpip.ErrConnectStarted:
		w.Probes["connect_refused_locally"]++
	case len(syns) == 0:
		w.Fail("wrong-addressing", "", "Connect to % x started and no SYN was emitted", []byte(dst))
	default:
		d := syns[0]
		w.checkOut("SYN", d, r, dst, local)
		w.Probes["syn_frames_checked"]++
		// the peer refuses: the connection ends at once
		rst := codec.EncodeTCP(d.IP.Dst, d.IP.Src, &codec.TCPSeg{SrcPort: dport, DstPort: d.TCP.SrcPort, Seq: 0, Ack: d.TCP.Seq + 1, Flags: codec.FlagRST | codec.FlagACK})
		l := w.Links[d.F.Link]
		nic := d.F.Link + 1
		hop := tcpip.Address(r.gw)
		if hop == "" {
			hop = dst
		}
		if d.IP.V6 {
			w.Inject(l, ipv6.ProtocolNumber, codec.IPv6(d.IP.Dst, d.IP.Src, codec.ProtoTCP, 64, rst), macOf(hop, nic), adMAC[nic], 0)
		} else {
			w.ipid++
			w.Inject(l, ipv4.ProtocolNumber, codec.IPv4(d.IP.Dst, d.IP.Src, codec.ProtoTCP, w.ipid, 64, false, false, 0, rst), macOf(hop, nic), adMAC[nic], 0)
		}
	}
}

func (w *addrWorld) apply(s Step) {
	switch s.Op {
	case "udp":
		w.udpSend(s)
	case "reconn":
		w.reconnSend(s)
	case "ping":
		w.pingSend(s)
	case "rmaddr":
		// the first address of NIC 1 is removed (sockets that use it may keep it alive for themselves - what
		// they send is not judged meanwhile); everybody else's packets come from an address the interface
		// still has. Later it is assigned again.
		a := adNICAddrs[1][0]
		l := w.links[1]
		if w.removed[a] {
			if e := w.s.AddAddress(1, ipv4.ProtocolNumber, a); e == nil {
				delete(w.removed, a)
				if l.Addrs != nil {
					l.Addrs = append(l.Addrs, a)
				}
				w.Probes["address_assigned_again"]++
			}
		} else if e := w.s.RemoveAddress(1, a); e == nil {
			w.removed[a] = true
			for i, x := range l.Addrs {
				if x == a {
					l.Addrs = append(l.Addrs[:i:i], l.Addrs[i+1:]...)
					break
				}
			}
			w.Probes["address_removed"]++
		}
	case "in":
		w.inbound(s)
	case "connect":
		w.connect(s)
	case "adv":
		w.Advance(time.Duration(s.D))
		w.service()
	}
}

func (w *addrWorld) next() Step {
	r := w.Rng
	switch r.Pick(10, 6, 3, 2, 3, 2, 1) {
	case 6:
		return Step{Op: "rmaddr"}
	case 5:
		return Step{Op: "ping", A: r.Intn(len(adDst)), C: r.Intn(65536), D: int64([]int{0, 1, 2, 3, 8, 55, 56, 57, 1000}[r.Intn(9)])}
	case 4:
		return Step{Op: "reconn", A: r.Intn(7), D: int64(r.Intn(600))}
	case 0:
		n := []int{0, 1, 3, 4, 5, 100, 101, 511, 1000, 1400}[r.Intn(10)]
		return Step{Op: "udp", A: r.Intn(len(adDst)), B: r.Pick(4, 3, 4, 2), C: r.Intn(12), D: int64(n)}
	case 1:
		return Step{Op: "in", A: r.Intn(3), B: r.Intn(3), C: r.Intn(8), D: int64(r.Intn(4))}
	case 2:
		return Step{Op: "connect", A: r.Intn(len(adDst)), B: r.Intn(3), C: r.Intn(len(adLocal))}
	}
	return Step{Op: "adv", D: int64(time.Duration([]int{100, 1000, 30000, 61000, 120000}[r.Intn(5)]) * time.Millisecond)}
}

func (scAddr) Run(t *testing.T, prop string, seed uint64, cfgRaw json.RawMessage, steps []Step, tape []byte, trace bool) *RunOut {
	var cfg AddrCfg
	json.Unmarshal(cfgRaw, &cfg)
	o := &RunOut{Cfg: cfgRaw}
	bubble(t, func() {
		w := &addrWorld{World: NewWorld(seed), cfg: cfg, seed: seed, socks: map[int]tcpip.Endpoint{}, removed: map[tcpip.Address]bool{}}
		defer w.Close()
		w.TraceOn = trace
		rand.VerifSeed(sim.Mix(seed ^ 0x7a5d))
		ipv4.VerifReset()
		s := stack.New([]string{ipv4.ProtocolName, ipv6.ProtocolName, arp.ProtocolName}, []string{tcp.ProtocolName, udp.ProtocolName, ping.ProtocolName4, ping.ProtocolName6}, stack.Options{Clock: simClock{}})
		w.s = s
		w.stacks = append(w.stacks, s)
		for nic := 1; nic <= 3; nic++ {
			var l *Link
			switch {
			case nic <= 2 && cfg.Fd[nic-1]:
				l = w.AddFdLink("eth", 1500, adMAC[nic], true, -1)
			case nic <= 2:
				l = w.AddLink("eth", 1500, stack.CapabilityResolutionRequired, adMAC[nic], -1)
			default:
				l = w.AddLink("ptp", 1500, 0, "", -1)
			}
			w.links[nic] = l
			must(s.CreateNIC(tcpip.NICID(nic), l.id), "CreateNIC")
			for _, a := range adNICAddrs[nic] {
				must(s.AddAddress(tcpip.NICID(nic), w.netOf(a), a), "AddAddress")
				l.Addrs = append(l.Addrs, a)
			}
			if nic <= 2 {
				must(s.AddAddress(tcpip.NICID(nic), arp.ProtocolNumber, arp.ProtocolAddress), "AddAddress arp")
			}
		}
		var table []tcpip.Route
		for _, i := range cfg.Routes {
			r := adRoutes[i]
			table = append(table, tcpip.Route{Destination: tcpip.Address(r.dst), Mask: tcpip.AddressMask(r.mask), Gateway: tcpip.Address(r.gw), NIC: tcpip.NICID(r.nic)})
		}
		s.SetRouteTable(table)
		mon := NewMonitor()
		w.peerMon = true
		w.AttachMonitor(mon, func(d *Decoded) {
			w.seen = append(w.seen, d)
			w.todo = append(w.todo, d)
		})
		lep, err := s.NewEndpoint(tcp.ProtocolNumber, ipv4.ProtocolNumber, &waiter.Queue{})
		must(err, "listener")
		must(lep.Bind(tcpip.FullAddress{Port: 80}, nil), "listener bind")
		must(lep.Listen(8), "listen")
		w.lep = lep
		w.Settle()
		if steps == nil {
			for i := 0; i < cfg.MaxSteps && w.Viol == nil; i++ {
				st := w.next()
				w.Steps = append(w.Steps, st)
				w.apply(st)
				w.NSteps++
			}
		} else {
			for _, st := range steps {
				w.apply(st)
				w.NSteps++
				if w.Viol != nil {
					break
				}
			}
			w.Steps = steps
		}
		w.OnEmit = nil
		for _, ep := range w.socks {
			ep.Close()
		}
		lep.Close()
		w.Advance(70 * time.Second)
		finish(w.World, o)
		if w.Replay {
			o.Tape = tape
		}
		o.Nontrivial = w.Probes["udp_frames_checked"]+w.Probes["answers_checked"]+w.Probes["syn_frames_checked"] > 0
	})
	return o
}

// Package netsim is the discrete-event network simulation (DESIGN.md 3.2): one
// or two real stacks, a wire the simulator owns, a fake clock (synctest) and a
// step loop in which the simulator is the only source of external stimuli.
package netsim

import (
	"fmt"
	"os"
	"runtime"
	"testing/synctest"
	"time"

	"verif/sim"

	"github.com/brewlin/net-protocol/pkg/buffer"
	"github.com/brewlin/net-protocol/pkg/verifhook"
	tcpip "github.com/brewlin/net-protocol/protocol"
	"github.com/brewlin/net-protocol/stack"
)

// Step is one recorded simulator action. A replay executes the recorded
// steps verbatim; a step that is not applicable in the current state is a
// no-op, which is what lets the minimiser delete steps.
type Step struct {
	Op string `json:"op"`
	A  int    `json:"a,omitempty"`
	B  int    `json:"b,omitempty"`
	C  int    `json:"c,omitempty"`
	D  int64  `json:"d,omitempty"`
}

// Frame is one emission of a stack's link endpoint (or a frame crafted by the
// scripted peer).
type Frame struct {
	ID     int
	Link   int // emitting link
	Proto  tcpip.NetworkProtocolNumber
	Data   []byte // network-layer packet
	At     time.Duration
	SrcMAC tcpip.LinkAddress
	DstMAC tcpip.LinkAddress
	Dup    bool
	Eth    bool // written by a real fd-based endpoint as an Ethernet frame (MACs are those on the wire)
}

// Link is the in-memory NIC of one stack.
type Link struct {
	w          *World
	Idx        int
	Name       string
	mtu        uint32
	caps       stack.LinkEndpointCapabilities
	addr       tcpip.LinkAddress
	disp       stack.NetworkDispatcher
	id         tcpip.LinkEndpointID
	Queue      []*Frame // emitted, not yet delivered or dropped
	Peer       int      // link index frames are delivered to (-1: scripted peer reads the queue)
	Sent       int
	rx         chan func()                                                                                  // receive goroutine's inbox (created on first no-wait injection)
	fd         int                                                                                          // fd link: the simulated descriptor
	fdrx       chan []byte                                                                                  // fd link: frames waiting to be read by the endpoint's dispatch loop
	lastRx     int                                                                                          // fd link: length of the last frame queued for the dispatch loop
	fdDead     bool                                                                                         // fd link: the dispatch loop has returned
	FailGuard  func(proto tcpip.NetworkProtocolNumber, hdr buffer.View, payload buffer.VectorisedView) bool // frames the fault model does not allow to fail
	FailWrites int                                                                                          // injected fault: the next n writes to this link fail with no-buffer-space and emit nothing
	Addrs      []tcpip.Address                                                                              // addresses the harness assigned to this link's interface (sources the stack may use on it)
	NoLog      bool                                                                                         // frames of this link are left out of the event-log hash (their bytes depend on map iteration order)
}

func (l *Link) MTU() uint32                                  { return l.mtu }
func (l *Link) Capabilities() stack.LinkEndpointCapabilities { return l.caps }
func (l *Link) MaxHeaderLength() uint16                      { return 0 }
func (l *Link) LinkAddress() tcpip.LinkAddress               { return l.addr }
func (l *Link) Attach(d stack.NetworkDispatcher)             { l.disp = d }
func (l *Link) IsAttached() bool                             { return l.disp != nil }
func (l *Link) ID() tcpip.LinkEndpointID                     { return l.id }

// WritePacket copies the frame onto the simulated wire, stamped with the fake
// time, and offers a pre-emption point.
func (l *Link) WritePacket(r *stack.Route, hdr buffer.Prependable, payload buffer.VectorisedView, protocol tcpip.NetworkProtocolNumber) *tcpip.Error {
	w := l.w
	if w.storm() {
		return nil
	}
	if l.FailWrites > 0 && (l.FailGuard == nil || !l.FailGuard(protocol, hdr.View(), payload)) {
		// injected fault: the device refuses the frame (transmit queue full)
		l.FailWrites--
		w.Faults["link_write_error"]++
		w.Log.Byte(0xfe)
		if w.OnLinkError != nil {
			h := hdr.View()
			data := append(append(make([]byte, 0, len(h)+payload.Size()), h...), payload.ToView()...)
			w.OnLinkError(&Frame{ID: -1, Link: l.Idx, Proto: protocol, Data: data, At: time.Since(w.T0)})
		}
		return tcpip.ErrNoBufferSpace
	}
	h := hdr.View()
	data := make([]byte, 0, len(h)+payload.Size())
	data = append(data, h...)
	for _, v := range payload.Views() {
		data = append(data, v...)
	}
	f := &Frame{ID: w.nframes, Link: l.Idx, Proto: protocol, Data: data, At: time.Since(w.T0)}
	if r != nil {
		f.SrcMAC, f.DstMAC = r.LocalLinkAddress, r.RemoteLinkAddress
	}
	w.nframes++
	l.Sent++
	l.Queue = append(l.Queue, f)
	if !l.NoLog {
		w.Log.Byte(byte(l.Idx))
		w.Log.U64(uint64(f.At))
		w.Log.Bytes(data)
	}
	w.Emitted = append(w.Emitted, f)
	if w.TraceOn {
		w.Tracef("emit link=%d frame=%d %s", l.Idx, f.ID, describe(f))
	}
	w.c06(f)
	w.relObserve(f.Proto, f.Data, l.Idx, true)
	if w.OnEmit != nil {
		w.OnEmit(f)
	}
	w.yield("link.write")
	return nil
}

// storm reports whether the stack is emitting without bound inside one simulated
// instant (a zero-length timer, a loop): such a run never quiesces and ends in
// the runner's watchdog; meanwhile its frames are no longer kept, so that it
// cannot exhaust the machine's memory first.
func (w *World) storm() bool {
	now := time.Since(w.T0)
	if now != w.stormAt {
		w.stormAt, w.stormN = now, 0
	}
	w.stormN++
	if w.stormN > 300000 {
		w.Fail("emission-storm", "", "more than 300000 frames emitted within one simulated instant (t=%v): a timer of zero length or an unbounded loop in the stack", now)
		return true
	}
	return false
}

// c06 passes the frame through the world's own monitor when C06 is being
// decided and the world has no scripted-peer monitor of its own.
func (w *World) c06(f *Frame) {
	if currentProp != "C06" || w.peerMon {
		return
	}
	if w.mon6 == nil {
		w.mon6 = NewMonitor()
	}
	w.checkFrame(w.mon6, f)
}

// World is one simulated run.
type World struct {
	Rng         *sim.Rand // step generation (explore mode only)
	yrng        *sim.Rand
	T0          time.Time
	Links       []*Link
	nframes     int
	Log         sim.Hash
	Emitted     []*Frame // frames emitted since the last ClearEmitted
	History     []*Frame // delivered frames, for stale replay (bounded)
	OnEmit      func(f *Frame)
	OnDeliver   func(f *Frame) // called before a frame is handed to the receiving stack
	OnDrop      func(f *Frame)
	OnLinkError func(f *Frame) // an injected link write error fired: the frame the device refused
	Steps       []Step
	Tape        []byte // yield decisions taken (1 = yielded)
	tapePos     int
	Replay      bool
	YieldP      float64
	Faults      map[string]int64
	Probes      map[string]int64
	Yields      map[string]int64
	NSteps      int
	Viol        *Violation
	stacks      []*stack.Stack
	Trace       []string // human-readable event log (kept in memory, written after the bubble)
	TraceOn     bool
	ipid        uint16 // identification counter of packets the scripted peer builds
	mon6        *Monitor
	stormAt     time.Duration
	stormN      int
	DropIDs     map[int]bool        // emissions (by frame number) the wire loses: fault positions chosen up front
	DropGuard   func(f *Frame) bool // frames the fault model does not allow to lose
	rel         *relTrace
	peerMon     bool // a scripted-peer world: its own monitor sees every frame
}

// Violation is the first oracle failure of a run.
type Violation struct {
	Class  string
	Detail string
	Sig    string // signature for known-finding matching
}

// pendingReplay, when set, makes the next world replay the given yield tape
// from its very first schedule point (set by runSc for replays).
var pendingReplay *[]byte

func NewWorld(seed uint64) *World {
	w := &World{Rng: sim.NewRand(sim.Mix(seed)), yrng: sim.NewRand(sim.Mix(seed ^ 0x5eed)), T0: time.Now(), Log: sim.NewHash(),
		Faults: map[string]int64{}, Probes: map[string]int64{}, Yields: map[string]int64{}}
	if pendingReplay != nil {
		w.Replay, w.Tape = true, *pendingReplay
	}
	stack.VerifResetWakerOrder()
	verifhook.Yield = w.yield
	clockYield = func() { w.yield("clock.now") }
	crng := sim.NewRand(sim.Mix(seed ^ 0xc400))
	verifhook.Choose = func(site string, n uint32) (uint32, bool) {
		// e.g. the starting offset of the ephemeral port search
		return uint32(crng.Intn(int(n))), true
	}
	return w
}

// Close drops the hooks and the process-global references of the run.
func (w *World) Close() {
	verifhook.Yield = nil
	verifhook.Choose = nil
	clockYield = nil
	for _, l := range w.Links {
		if l.rx != nil {
			close(l.rx)
			l.rx = nil
		}
	}
	w.closeFdLinks()
	synctest.Wait()
	for _, l := range w.Links {
		stack.VerifUnregisterLinkEndpoint(l.id)
	}
}

// currentProp is the property the running check decides (set by runSc).
var currentProp string

// c06Classes are the oracle classes of C06 (frame well-formedness and
// addressing). When C06 drives the other checks' scenarios for the frames
// they make the stack emit, every other oracle of those scenarios is muted.
var c06Classes = map[string]bool{
	"malformed-frame": true, "wrong-source-link-address": true, "wrong-link-address": true,
	"wrong-source-address": true, "wrong-interface": true, "wrong-addressing": true, "panic": true,
	// (neighbour scenario) what an ARP reply or neighbour advertisement says and whom it is addressed to:
	// "addresses ... are those ... of the packet being answered"
	"reply-wrong-addressee": true, "reply-wrong-content": true,
}

// keeps reports whether a violation of the given class counts under the property being decided.
func keeps(class string) bool { return currentProp != "C06" || c06Classes[class] }

func (w *World) Fail(class, sig, format string, a ...interface{}) {
	if !keeps(class) {
		w.Probes["other_property_"+class]++
		return
	}
	if w.Viol == nil {
		w.Viol = &Violation{Class: class, Sig: sig, Detail: fmt.Sprintf(format, a...)}
	}
}

func (w *World) Tracef(format string, a ...interface{}) {
	if w.TraceOn {
		w.Trace = append(w.Trace, fmt.Sprintf("%12v ", time.Since(w.T0))+fmt.Sprintf(format, a...))
	}
}

// yield is the pre-emption hook: with the run's probability (or as the tape
// says when replaying) the caller moves behind every other runnable goroutine.
func (w *World) yield(site string) {
	if yTraceMode == "sites" {
		YTrace = append(YTrace, fmt.Sprintf("%s g%d t=%v", site, sim.Goid(), time.Since(w.T0)))
	}
	if w.YieldP <= 0 {
		// (also when replaying: the tape holds one entry per schedule point met while the run's
		// probability was in force - points met before that, while the world is set up, have none)
		return
	}
	var y bool
	if w.Replay {
		if w.tapePos < len(w.Tape) {
			y = w.Tape[w.tapePos] == 1
		}
		w.tapePos++
	} else {
		y = w.yrng.Chance(w.YieldP)
		if y {
			w.Tape = append(w.Tape, 1)
		} else {
			w.Tape = append(w.Tape, 0)
		}
	}
	if v := yTraceMode; v == "all" || (w.TraceOn && v != "") {
		YTrace = append(YTrace, fmt.Sprintf("%s %v g%d", site, y, sim.Goid()))
	}
	if y {
		w.Yields[site]++
		runtime.Gosched()
	}
}

// YTrace: debugging aid (VERIF_YTRACE): the schedule points of the traced run, in order.
var YTrace []string

// yTraceMode is VERIF_YTRACE, read once (the hook runs at every schedule point).
var yTraceMode = os.Getenv("VERIF_YTRACE")

// AddLink registers a new in-memory NIC.
func (w *World) AddLink(name string, mtu uint32, caps stack.LinkEndpointCapabilities, addr tcpip.LinkAddress, peer int) *Link {
	l := &Link{w: w, Idx: len(w.Links), Name: name, mtu: mtu, caps: caps, addr: addr, Peer: peer}
	l.id = stack.RegisterLinkEndpoint(l)
	w.Links = append(w.Links, l)
	return l
}

// Settle waits until every goroutine of the stacks is parked.
func (w *World) Settle() { synctest.Wait() }

// Advance moves the fake clock; all timers inside the interval fire at their
// exact instants.
func (w *World) Advance(d time.Duration) {
	if d > 0 {
		time.Sleep(d)
	}
	synctest.Wait()
}

// AdvanceUntil advances the clock in growing quanta until pred holds or max
// has passed. Returns the time advanced.
func (w *World) AdvanceUntil(max time.Duration, pred func() bool) time.Duration {
	var total time.Duration
	q := time.Millisecond
	for total < max && !pred() {
		if total+q > max {
			q = max - total
		}
		w.Advance(q)
		total += q
		if q < time.Second {
			q *= 2
		}
	}
	return total
}

func (w *World) ClearEmitted() { w.Emitted = w.Emitted[:0] }

// views cuts data into views as a link layer might hand them up.
func views(data []byte, mode int) buffer.VectorisedView {
	b := append([]byte(nil), data...)
	switch mode {
	case 1: // the fd-based endpoint's scatter: 128, 256, 512, ...
		var vs []buffer.View
		sz := 128
		rest := b
		for len(rest) > 0 {
			n := sz
			if n > len(rest) {
				n = len(rest)
			}
			vs = append(vs, buffer.View(rest[:n]))
			rest = rest[n:]
			sz *= 2
		}
		return buffer.NewVectorisedView(len(b), vs)
	case 2: // two views; like every shipped link endpoint the first one holds at least 128 bytes, i.e. all headers
		if len(b) > 160 {
			return buffer.NewVectorisedView(len(b), []buffer.View{buffer.View(b[:128]), buffer.View(b[128:])})
		}
	}
	return buffer.View(b).ToVectorisedView()
}

// Inject hands a network-layer packet to link l's stack.
func (w *World) Inject(l *Link, proto tcpip.NetworkProtocolNumber, data []byte, src, dst tcpip.LinkAddress, mode int) {
	w.relObserve(proto, data, l.Idx, false)
	if l.fdrx != nil {
		if !l.NoLog {
			w.Log.Byte(0x80 | byte(l.Idx))
			w.Log.Bytes(data)
		}
		w.fdInject(l, ethWrap(l, proto, data, src, dst), true)
		return
	}
	if l.disp == nil {
		return
	}
	if !l.NoLog {
		w.Log.Byte(0x80 | byte(l.Idx))
		w.Log.Bytes(data)
	}
	if l.rx != nil {
		// arrivals of one link are handled in order: behind whatever its receive
		// goroutine still has to process
		vv := views(data, mode)
		select {
		case l.rx <- func() { l.disp.DeliverNetworkPacket(l, src, dst, proto, vv) }:
			synctest.Wait()
			return
		default:
			synctest.Wait()
		}
	}
	l.disp.DeliverNetworkPacket(l, src, dst, proto, views(data, mode))
	synctest.Wait()
}

func (w *World) remember(f *Frame) {
	w.History = append(w.History, f)
	if len(w.History) > 64 {
		w.History = w.History[1:]
	}
}

// Wire steps. Each returns whether it applied.

func (w *World) Deliver(link, k, mode int) bool { return w.deliver(link, k, mode, true) }

// DeliverNoWait hands the frame to the receiving stack without waiting for
// quiescence: its processing overlaps with whatever is posted next.
func (w *World) DeliverNoWait(link, k, mode int) bool { return w.deliver(link, k, mode, false) }

func (w *World) deliver(link, k, mode int, wait bool) bool {
	if link < 0 || link >= len(w.Links) {
		return false
	}
	l := w.Links[link]
	if k < 0 || k >= len(l.Queue) || l.Peer < 0 {
		return false
	}
	f := l.Queue[k]
	if w.DropIDs[f.ID] && !f.Dup && (w.DropGuard == nil || !w.DropGuard(f)) {
		// enumerated fault: this emission is lost, whenever it comes up for delivery
		delete(w.DropIDs, f.ID)
		w.Probes["enumerated_drops_fired"]++
		return w.Drop(link, k)
	}
	l.Queue = append(l.Queue[:k], l.Queue[k+1:]...)
	if k > 0 {
		w.Faults["reorder"]++
	}
	w.remember(f)
	w.Tracef("deliver link=%d frame=%d len=%d", link, f.ID, len(f.Data))
	if w.OnDeliver != nil {
		w.OnDeliver(f)
	}
	if !wait {
		w.InjectNoWait(w.Links[l.Peer], f.Proto, f.Data, mode)
		return true
	}
	w.Inject(w.Links[l.Peer], f.Proto, f.Data, f.SrcMAC, f.DstMAC, mode)
	return true
}

func (w *World) Drop(link, k int) bool {
	if link < 0 || link >= len(w.Links) {
		return false
	}
	l := w.Links[link]
	if k < 0 || k >= len(l.Queue) {
		return false
	}
	f := l.Queue[k]
	l.Queue = append(l.Queue[:k], l.Queue[k+1:]...)
	w.Faults["drop"]++
	w.Tracef("drop link=%d frame=%d", link, f.ID)
	if w.OnDrop != nil {
		w.OnDrop(f)
	}
	w.Log.Byte(0xd0)
	return true
}

func (w *World) Dup(link, k int) bool {
	if link < 0 || link >= len(w.Links) {
		return false
	}
	l := w.Links[link]
	if k < 0 || k >= len(l.Queue) {
		return false
	}
	c := *l.Queue[k]
	c.Dup = true
	l.Queue = append(l.Queue, &c)
	w.Faults["duplicate"]++
	w.Log.Byte(0xd1)
	return true
}

// Stale re-injects a copy of a frame delivered earlier in the run.
func (w *World) Stale(k, mode int) bool {
	if k < 0 || k >= len(w.History) {
		return false
	}
	f := w.History[k]
	l := w.Links[f.Link]
	if l.Peer < 0 {
		return false
	}
	w.Faults["stale_replay"]++
	w.Tracef("stale frame=%d", f.ID)
	w.Inject(w.Links[l.Peer], f.Proto, f.Data, f.SrcMAC, f.DstMAC, mode)
	return true
}

// InFlight is the number of frames on the wire.
func (w *World) InFlight() int {
	n := 0
	for _, l := range w.Links {
		if l.Peer >= 0 {
			n += len(l.Queue)
		}
	}
	return n
}

// FaultCfg are the per-run wire fault rates (swarm parameters).
type FaultCfg struct {
	Drop, Dup, Reorder, Stale, Delay float64
	WriteErr                         float64 // the emitting device refuses the next frame (link write error)
	Budget                           int     // faults allowed before the wire turns benign
	Undroppable                      func(f *Frame) bool
	MaxDelay                         time.Duration
}

func (w *World) faultsFired() int {
	return int(w.Faults["drop"] + w.Faults["duplicate"] + w.Faults["reorder"] + w.Faults["stale_replay"] + w.Faults["delay"] + w.Faults["link_write_error"])
}

// WireStep draws one wire action. ok=false when nothing is in flight.
func (w *World) WireStep(fc *FaultCfg) (Step, bool) {
	var cand []int
	for i, l := range w.Links {
		if l.Peer >= 0 && len(l.Queue) > 0 {
			cand = append(cand, i)
		}
	}
	if len(cand) == 0 {
		if fc != nil && w.faultsFired() < fc.Budget && len(w.History) > 0 && w.Rng.Chance(fc.Stale) {
			return Step{Op: "stale", A: w.Rng.Intn(len(w.History)), C: w.Rng.Intn(3)}, true
		}
		return Step{}, false
	}
	link := cand[w.Rng.Intn(len(cand))]
	q := w.Links[link].Queue
	mode := 0
	if w.Rng.Chance(0.2) {
		mode = w.Rng.Range(1, 2)
	}
	if fc == nil || w.faultsFired() >= fc.Budget {
		return Step{Op: "deliver", A: link, B: 0, C: mode}, true
	}
	r := w.Rng.Float()
	switch {
	case r < fc.Drop:
		k := w.Rng.Intn(len(q))
		if fc.Undroppable != nil && fc.Undroppable(q[k]) {
			return Step{Op: "deliver", A: link, B: 0, C: mode}, true
		}
		return Step{Op: "drop", A: link, B: k}, true
	case r < fc.Drop+fc.Dup:
		return Step{Op: "dup", A: link, B: w.Rng.Intn(len(q))}, true
	case r < fc.Drop+fc.Dup+fc.Reorder && len(q) > 1:
		return Step{Op: "deliver", A: link, B: w.Rng.Range(1, len(q)-1), C: mode}, true
	case r < fc.Drop+fc.Dup+fc.Reorder+fc.Stale && len(w.History) > 0:
		return Step{Op: "stale", A: w.Rng.Intn(len(w.History)), C: mode}, true
	case r < fc.Drop+fc.Dup+fc.Reorder+fc.Stale+fc.Delay+fc.WriteErr && r >= fc.Drop+fc.Dup+fc.Reorder+fc.Stale+fc.Delay:
		return Step{Op: "linkerr", A: link, B: w.Rng.Intn(2)}, true
	case r < fc.Drop+fc.Dup+fc.Reorder+fc.Stale+fc.Delay && fc.MaxDelay > 0:
		w.Faults["delay"]++
		return Step{Op: "adv", D: int64(time.Duration(w.Rng.Intn(int(fc.MaxDelay/time.Millisecond)+1)) * time.Millisecond)}, true
	}
	return Step{Op: "deliver", A: link, B: 0, C: mode}, true
}

// ApplyWire executes a wire/time step; returns false if the op is not a wire op.
func (w *World) ApplyWire(s Step) bool {
	switch s.Op {
	case "deliver":
		w.Deliver(s.A, s.B, s.C)
	case "ndeliver":
		w.DeliverNoWait(s.A, s.B, s.C)
	case "drop":
		w.Drop(s.A, s.B)
	case "dup":
		w.Dup(s.A, s.B)
	case "stale":
		w.Stale(s.A, s.C)
	case "linkerr":
		if s.A >= 0 && s.A < len(w.Links) {
			w.Links[s.A].FailWrites += 1 + s.B%2
			w.Probes["link_write_faults_armed"]++
		}
	case "adv":
		w.Advance(time.Duration(s.D))
	default:
		return false
	}
	return true
}

// SimSeconds is the fake time covered so far.
func (w *World) SimNanos() int64 { return int64(time.Since(w.T0)) }

// InjectNoWait hands a packet to the link's receive goroutine (the stand-in for
// a NIC's dispatch loop) without waiting for quiescence: several arrivals can be
// pending at once, and their processing interleaves - at the seeded yield
// points - with application goroutines and the stack's own goroutines.
func (w *World) InjectNoWait(l *Link, proto tcpip.NetworkProtocolNumber, data []byte, mode int) {
	w.relObserve(proto, data, l.Idx, false)
	if l.fdrx != nil {
		if !l.NoLog {
			w.Log.Byte(0x80 | byte(l.Idx))
			w.Log.Bytes(data)
		}
		w.fdInject(l, ethWrap(l, proto, data, "", ""), false)
		return
	}
	if l.disp == nil {
		return
	}
	if !l.NoLog {
		w.Log.Byte(0x80 | byte(l.Idx))
		w.Log.Bytes(data)
	}
	vv := views(data, mode)
	f := func() { l.disp.DeliverNetworkPacket(l, "", "", proto, vv) }
	if l.rx == nil {
		l.rx = make(chan func(), 4096)
		rx := l.rx
		go func() {
			for g := range rx {
				g()
			}
		}()
	}
	select {
	case l.rx <- f:
	default:
		f()
	}
}

// clockYield lets the simulated clock be a schedule point (the stack reads it
// outside its locks in a few places).
var clockYield func()

package netsim

import (
	"encoding/json"
	"fmt"
	"testing"
	"time"

	"verif/netsim/codec"
	"verif/sim"

	"github.com/brewlin/net-protocol/pkg/waiter"
	tcpip "github.com/brewlin/net-protocol/protocol"
	"github.com/brewlin/net-protocol/protocol/network/ipv4"
	"github.com/brewlin/net-protocol/protocol/network/ipv6"
	"github.com/brewlin/net-protocol/protocol/transport/tcp"
)

// scWindow: C04 - the stack respects the peer's window and MSS and keeps its
// own window honest. One established connection against the scripted peer,
// the stack being the sender (role 0) or the receiver (role 1).
type scWindow struct{}

func init() {
	scenarios["window"] = scWindow{}
	propScenario["C04"] = "window"
}

type WinCfg struct {
	Role        int     `json:"role"` // 0: stack sends, 1: stack receives
	V6          bool    `json:"v6"`
	MTU         int     `json:"mtu"`
	PeerMSS     int     `json:"peer_mss"` // -1: no MSS option
	PeerWS      int     `json:"peer_ws"`  // -1: no window scale option
	TS          bool    `json:"ts"`
	SACK        bool    `json:"sack"`
	CC          string  `json:"cc"`
	RcvBuf      int     `json:"rcvbuf"`
	SndBuf      int     `json:"sndbuf"`
	Passive     bool    `json:"passive"` // the peer opens the connection
	MaxSteps    int     `json:"max_steps"`
	YieldP      float64 `json:"yield_p"`
	ISSPlace    int     `json:"iss_place"` // C14: 0 none, 1 stack just below 2^31, 2 stack just below 2^32, 3/4 peer likewise
	ISSBack     int     `json:"iss_back"`
	Cookie      bool    `json:"syn_cookies,omitempty"`          // passive open through the SYN-cookie path (listener in flood mode)
	DupSA       bool    `json:"syn_ack_repeated,omitempty"`     // active open: the peer's SYN-ACK arrives a second time (it missed the ACK)
	SAWin       int     `json:"syn_ack_window,omitempty"`       // active open: the window the peer's SYN-ACK offers (0 = 65535)
	SendBlocked bool    `json:"stack_send_blocked,omitempty"`   // receiver role: the peer's window is 0 throughout and the stack's application has data queued that cannot leave
	SmallWin    int     `json:"peer_window_segments,omitempty"` // recovery scenario: the receiver's window holds only this many segments
	WinJitter   bool    `json:"ack_window_jitter,omitempty"`    // recovery scenario: every advancing ACK of the peer changes the advertised window a little
	ISSMid      bool    `json:"iss_mid_space,omitempty"`        // the neutral twin of a C14 run: same placement, counted back from mid-space values
}

func neutralWin(raw json.RawMessage) json.RawMessage {
	var c WinCfg
	json.Unmarshal(raw, &c)
	c.ISSMid = true
	b, _ := json.Marshal(c)
	return b
}

func (scWindow) NeutralISS(raw json.RawMessage) json.RawMessage { return neutralWin(raw) }

func genWinCfg(rng *sim.Rand, tier string) WinCfg {
	c := WinCfg{Role: rng.Intn(2), V6: rng.Chance(0.3), MTU: []int{576, 1280, 1500, 1500, 9000}[rng.Intn(5)],
		PeerMSS: []int{-1, 1, 88, 536, 1000, 1400, 1460, 1460, 65535}[rng.Intn(9)], PeerWS: []int{-1, -1, 0, 1, 4, 7, 14}[rng.Intn(7)],
		TS: rng.Chance(0.5), SACK: rng.Chance(0.5), CC: "reno", Passive: rng.Chance(0.4), MaxSteps: rng.Range(20, 200)}
	if c.V6 && c.MTU < 1280 {
		c.MTU = 1280
	}
	if rng.Chance(0.3) {
		c.CC = "cubic"
	}
	c.RcvBuf = []int{0, 0, 4096, 16384, 65536, 1 << 20}[rng.Intn(6)]
	c.SndBuf = []int{0, 0, 4096, 65536, 1 << 20}[rng.Intn(5)]
	if rng.Chance(0.3) {
		c.YieldP = 0.1
	}
	if tier == "thorough" {
		c.MaxSteps = rng.Range(50, 600)
	}
	c.Cookie = c.Passive && rng.Chance(0.3)
	c.DupSA = !c.Passive && rng.Chance(0.3)
	c.SendBlocked = c.Role == 1 && rng.Chance(0.25)
	if !c.Passive && rng.Chance(0.4) {
		c.SAWin = []int{100, 1000, 3000, 20000}[rng.Intn(4)]
	}
	return c
}

func (scWindow) GenCfg(rng *sim.Rand, tier, prop, variant string) json.RawMessage {
	c := genWinCfg(rng, tier)
	if prop == "C14" {
		c.ISSPlace = rng.Range(1, 4)
		c.ISSBack = rng.Intn(3000)
		if rng.Chance(0.3) {
			c.ISSBack = rng.Intn(4)
		}
	}
	b, _ := json.Marshal(c)
	return b
}

type winWorld struct {
	*PeerWorld
	cfg WinCfg
	ep  tcpip.Endpoint
	p   *TCPPeer
	ws  int // shift applied to windows the peer advertises (0 unless both sides sent the option)
	sws int // shift applied to windows the stack advertises
	// role 0 (stack sends)
	written  int64 // bytes accepted by Write
	edge     int64 // largest right edge offered so far, as an offset from the stack's ISS+1
	peerGot  []bool
	peerNxt  int64 // contiguous bytes received by the peer
	mtuLimit int   // current path MTU as told to the stack (0 = link MTU)
	lastData *Decoded
	mssLimit int
	peerWin  uint16 // the window field of the peer's last segment
	sawAck   bool   // the peer has sent an ACK after the handshake (its window field is read with the scale factor)
	// role 1 (stack receives)
	sent     int64 // in-order bytes sent by the peer (offset of next in-order byte)
	read     int64
	lastEdge int64 // last advertised right edge (offset from peer ISS+1)
	haveEdge bool
	lastAck  int64
	lastWin  int64
	zeroSeen bool
	bogus    map[int64]bool // offsets that were sent beyond the right edge with bogus content
	ackHist  [][2]int64     // sender role: every ACK the peer has sent (offset acknowledged, raw window)
	maxSent  int64          // highest stream offset ever sent with true content
}

func (w *winWorld) net() tcpip.NetworkProtocolNumber {
	if w.cfg.V6 {
		return ipv6.ProtocolNumber
	}
	return ipv4.ProtocolNumber
}

func winByte(seed uint64, dir int, i int64) byte {
	return byte(sim.Mix(seed^uint64(dir)<<50^uint64(i>>3)) >> (8 * uint(i&7)))
}

func (w *winWorld) synOpts(echoTS uint32, stackHasTS bool) []byte {
	var o []byte
	if w.cfg.PeerMSS >= 0 {
		o = append(o, codec.OptMSS(uint16(w.cfg.PeerMSS))...)
	}
	if w.cfg.PeerWS >= 0 {
		o = append(o, codec.OptWS(uint8(w.cfg.PeerWS))...)
	}
	if w.cfg.SACK {
		o = append(o, codec.OptSACKPerm()...)
	}
	if w.cfg.TS && stackHasTS {
		o = append(o, codec.OptTS(5000, echoTS)...)
	}
	return codec.PadOpts(o)
}

// establish opens the connection (actively or passively) and fills in p, ep, ws, sws.
func (w *winWorld) establish() bool {
	var peerISS uint32 = uint32(w.Rng.Uint64())
	switch w.cfg.ISSPlace {
	case 3, 4:
		peerISS = issBase(w.cfg.ISSPlace, w.cfg.ISSMid) - uint32(w.cfg.ISSBack)
	}
	wq := &waiter.Queue{}
	if !w.cfg.Passive {
		ep, err := w.S.S.NewEndpoint(tcp.ProtocolNumber, w.net(), wq)
		must(err, "NewEndpoint")
		w.applySock(ep)
		must(ep.Bind(tcpip.FullAddress{Port: 5000}, nil), "Bind")
		w.placeOwnISS()
		p := w.NewTCPPeer(w.cfg.V6, 9000, 5000, peerISS)
		if e := ep.Connect(tcpip.FullAddress{Addr: p.PAddr, Port: 9000}); e != tcpip.ErrConnectStarted {
			return false
		}
		w.Settle()
		mine := p.Mine(w.Take())
		if len(mine) != 1 || mine[0].Flags != codec.FlagSYN {
			return false
		}
		syn := mine[0]
		saWin := uint16(65535)
		if w.cfg.SAWin > 0 {
			saWin = uint16(w.cfg.SAWin)
		}
		p.Send(codec.FlagSYN|codec.FlagACK, p.ISS, syn.Seq+1, saWin, w.synOpts(syn.TSVal, syn.HasTS), nil)
		p.SndNxt = p.ISS + 1
		p.TSOn = w.cfg.TS && syn.HasTS
		p.Mine(w.Take())
		if _, err := ep.GetRemoteAddress(); err != nil {
			return false
		}
		if w.cfg.DupSA {
			// the same SYN-ACK once more: it offers what it offered the first time (65535 bytes, unscaled)
			tsOn := p.TSOn
			p.TSOn = false
			p.Send(codec.FlagSYN|codec.FlagACK, p.ISS, syn.Seq+1, saWin, w.synOpts(syn.TSVal, syn.HasTS), nil)
			p.TSOn = tsOn
			p.Mine(w.Take())
			w.Probes["syn_ack_repeated"]++
		}
		w.ep, w.p = ep, p
	} else {
		lep, err := w.S.S.NewEndpoint(tcp.ProtocolNumber, w.net(), wq)
		must(err, "NewEndpoint")
		w.applySock(lep)
		must(lep.Bind(tcpip.FullAddress{Port: 5000}, nil), "Bind")
		must(lep.Listen(4), "Listen")
		w.Settle()
		p := w.NewTCPPeer(w.cfg.V6, 9000, 5000, peerISS)
		var o []byte
		if w.cfg.PeerMSS >= 0 {
			o = append(o, codec.OptMSS(uint16(w.cfg.PeerMSS))...)
		}
		if w.cfg.PeerWS >= 0 {
			o = append(o, codec.OptWS(uint8(w.cfg.PeerWS))...)
		}
		if w.cfg.SACK {
			o = append(o, codec.OptSACKPerm()...)
		}
		if w.cfg.TS {
			o = append(o, codec.OptTS(5000, 0)...)
		}
		p.Send(codec.FlagSYN, p.ISS, 0, 65535, codec.PadOpts(o), nil)
		mine := p.Mine(w.Take())
		if len(mine) != 1 || mine[0].Flags&codec.FlagSYN == 0 {
			return false
		}
		p.SndNxt = p.ISS + 1
		p.TSOn = w.cfg.TS && mine[0].HasTS
		p.Send(codec.FlagACK, p.SndNxt, p.RcvNxt, 65535, nil, nil)
		p.Mine(w.Take())
		ep, _, e := lep.Accept()
		if e != nil {
			return false
		}
		w.applySock(ep)
		w.ep, w.p = ep, p
		lep.Close()
		w.Settle()
	}
	if w.cfg.PeerWS >= 0 && w.p.StackWS >= 0 {
		w.ws, w.sws = w.cfg.PeerWS, w.p.StackWS
		if w.ws > 14 {
			w.ws = 14
		}
	}
	w.mssLimit = 536
	if w.cfg.PeerMSS >= 0 {
		w.mssLimit = w.cfg.PeerMSS
	}
	if w.mssLimit < 1 {
		w.mssLimit = 1
	}
	// the window of a SYN / SYN-ACK is never scaled
	w.edge, w.peerWin = 65535, 65535
	if !w.cfg.Passive && w.cfg.SAWin > 0 {
		w.edge, w.peerWin = int64(w.cfg.SAWin), uint16(w.cfg.SAWin)
	}
	w.bogus = map[int64]bool{}
	return true
}

func (w *winWorld) applySock(ep tcpip.Endpoint) {
	if w.cfg.RcvBuf > 0 {
		ep.SetSockOpt(tcpip.ReceiveBufferSizeOption(w.cfg.RcvBuf))
	}
	if w.cfg.SndBuf > 0 {
		ep.SetSockOpt(tcpip.SendBufferSizeOption(w.cfg.SndBuf))
	}
}

func (w *winWorld) placeOwnISS() {
	var t uint32
	switch w.cfg.ISSPlace {
	case 1, 2:
		t = issBase(w.cfg.ISSPlace, w.cfg.ISSMid) - uint32(w.cfg.ISSBack)
	default:
		return
	}
	placeISS(t)
}

// ---- role 0: the stack sends, the peer advertises adversarial windows ----

// observeSender checks every data segment the stack emitted.
func (w *winWorld) observeSender() {
	p := w.p
	for _, d := range w.Take() {
		if d.TCP == nil {
			continue
		}
		t := d.TCP
		if t.SrcPort != p.SPort || t.DstPort != p.PPort {
			continue
		}
		if t.HasTS {
			p.TSRecent = t.TSVal
		}
		if t.Flags&codec.FlagSYN != 0 || len(t.Payload) == 0 {
			continue
		}
		off := int64(int32(t.Seq - (p.StackISS + 1)))
		end := off + int64(len(t.Payload))
		w.lastData = d
		if end > w.edge {
			w.Fail("sent-beyond-window", "", "data segment [%d,%d) (stream offsets) reaches beyond %d, the largest right edge the peer has ever offered (window scale %d)", off, end, w.edge, w.ws)
		}
		if len(t.Payload) > w.mssLimit {
			why := ""
			if w.cfg.Cookie && w.mssLimit < 536 && len(t.Payload) <= 536 {
				why = " [SYN-cookie handshake: the peer's value is below the smallest one a cookie can encode, 536, which the stack uses instead]"
			}
			w.Fail("segment-exceeds-mss", "", "data segment carries %d bytes, the peer's maximum segment size is %d%s", len(t.Payload), w.mssLimit, why)
		}
		lim := int(w.S.Link.mtu)
		if w.mtuLimit > 0 && w.mtuLimit < lim {
			lim = w.mtuLimit
		}
		if d.IP.TotalLen > lim {
			opts := t.DataOff - 20
			room := lim - d.IP.HdrLen - t.DataOff
			why := fmt.Sprintf("%d bytes were available for payload", room)
			if room < 1 && len(t.Payload) == 1 {
				why = "headers and options alone leave no room for a single byte of payload, and the stack sends one byte regardless"
			}
			w.Fail("packet-exceeds-mtu", "", "packet of %d bytes (%d IP header + 20 TCP header + %d TCP options + %d payload) emitted, path MTU is %d: %s", d.IP.TotalLen, d.IP.HdrLen, opts, len(t.Payload), lim, why)
		}
		// content and peer-side reassembly
		for i, b := range t.Payload {
			o := off + int64(i)
			if b != winByte(w.seed, 0, o) {
				w.Fail("stream-corrupt", "", "segment byte at stream offset %d is 0x%02x, the application wrote 0x%02x", o, b, winByte(w.seed, 0, o))
				break
			}
			for int64(len(w.peerGot)) <= o {
				w.peerGot = append(w.peerGot, false)
			}
			w.peerGot[o] = true
		}
		for w.peerNxt < int64(len(w.peerGot)) && w.peerGot[w.peerNxt] {
			w.peerNxt++
		}
		if end > w.written {
			w.Fail("sent-unwritten", "", "segment reaches stream offset %d, only %d bytes were written", end, w.written)
		}
		if off+int64(len(t.Payload)) > 1<<31-1 {
			continue
		}
	}
}

func (w *winWorld) senderStep(s Step) {
	p := w.p
	switch s.Op {
	case "write":
		if w.mssLimit <= 8 && s.C > 3000 {
			s.C = 3000 // (a peer MSS of a few bytes makes every byte a segment: keep the run finite)
		}
		buf := make([]byte, s.C)
		for i := range buf {
			buf[i] = winByte(w.seed, 0, w.written+int64(i))
		}
		n, _, _ := w.ep.Write(tcpip.SlicePayload(buf), tcpip.WriteOptions{})
		w.written += int64(n)
		w.Settle()
	case "ack":
		// A: 0 ack everything received, 1 ack part of it, 2 repeat the previous ack; B: raw window
		ackOff := w.peerNxt
		switch s.A {
		case 1:
			ackOff = int64(int32(p.RcvNxt-(p.StackISS+1))) + (w.peerNxt-int64(int32(p.RcvNxt-(p.StackISS+1))))/2
		case 2:
			ackOff = int64(int32(p.RcvNxt - (p.StackISS + 1)))
		}
		if ackOff < int64(int32(p.RcvNxt-(p.StackISS+1))) {
			ackOff = int64(int32(p.RcvNxt - (p.StackISS + 1)))
		}
		p.RcvNxt = p.StackISS + 1 + uint32(ackOff)
		win := uint16(s.B)
		if e := ackOff + int64(win)<<uint(w.ws); e > w.edge {
			w.edge = e
		}
		w.peerWin = win
		w.sawAck = true
		w.ackHist = append(w.ackHist, [2]int64{ackOff, int64(win)})
		p.Send(codec.FlagACK, p.SndNxt, p.RcvNxt, win, nil, nil)
		w.Probes["acks_sent"]++
		if win == 0 {
			w.Probes["zero_window_offered"]++
		}
	case "staleack":
		// the network delivers an earlier ACK of the peer once more, behind newer ones (reordering, duplication):
		// it offers nothing the peer has not offered before, so the largest right edge ever offered stays what it was
		var old *[2]int64
		cur := int64(int32(p.RcvNxt - (p.StackISS + 1)))
		for i := len(w.ackHist) - 1; i >= 0; i-- {
			if w.ackHist[i][0] < cur {
				old = &w.ackHist[i]
				break
			}
		}
		if old == nil {
			break
		}
		p.Send(codec.FlagACK, p.SndNxt, p.StackISS+1+uint32(old[0]), uint16(old[1]), nil, nil)
		w.Probes["stale_acks_delivered_again"]++
	case "farack":
		// an acknowledgement of data that was never sent, half the sequence space (give or take one) ahead:
		// it acknowledges nothing; whatever is queued behind a closed window is still owed to the peer
		if !w.sawAck {
			break // (its window field would be read with the scale factor, unlike the SYN-ACK's: repeat only what an ACK has offered before)
		}
		d := uint32(1<<31) + uint32(s.A%3) - 1
		if s.A >= 3 {
			d = uint32(1 << 30)
		}
		p.Send(codec.FlagACK, p.SndNxt, p.RcvNxt+d, w.peerWin, nil, nil)
		w.Probes["acks_of_data_never_sent"]++
	case "pooo":
		// the peer sends a few bytes out of order: the stack now has a hole to report, so
		// (with SACK negotiated) its segments carry SACK blocks - and must still fit
		gap := uint32(1 + s.B%3000)
		k := 1 + s.C%50
		ackOff := int64(int32(p.RcvNxt - (p.StackISS + 1)))
		if e := ackOff + int64(w.peerWin)<<uint(w.ws); e > w.edge {
			w.edge = e
		}
		p.Send(codec.FlagACK|codec.FlagPSH, p.SndNxt+gap, p.RcvNxt, w.peerWin, nil, make([]byte, k))
		w.Probes["peer_data_out_of_order"]++
	case "ptb":
		if w.lastData == nil {
			return
		}
		mtu := s.B
		inner := w.lastData.F.Data
		if len(inner) > 48 {
			inner = inner[:48]
		}
		if w.cfg.V6 {
			if mtu < 1280 {
				mtu = 1280
			}
			if len(w.lastData.F.Data) > 88 {
				inner = w.lastData.F.Data[:88]
			} else {
				inner = w.lastData.F.Data
			}
			w.InjectIP(true, p.PAddr, p.SAddr, codec.ProtoICMPv6, codec.EncodeICMPv6([]byte(p.PAddr), []byte(p.SAddr), 2, 0, uint32(mtu), inner), 0)
		} else {
			if mtu < 68 {
				mtu = 68
			}
			w.InjectIP(false, p.PAddr, p.SAddr, codec.ProtoICMP, codec.EncodeICMPv4(3, 4, uint32(mtu), inner), 0)
		}
		if w.mtuLimit == 0 || mtu < w.mtuLimit {
			w.mtuLimit = mtu
		}
		w.Probes["packet_too_big"]++
		// what the stack had queued before the message may still leave at the old size in this step
		w.Take()
	case "adv":
		w.Advance(time.Duration(s.D))
	}
	w.observeSender()
}

func (w *winWorld) senderNext() Step {
	r := w.Rng
	switch r.Pick(5, 10, 1, 3, 1, 1, 1) {
	case 6:
		return Step{Op: "staleack"}
	case 5:
		return Step{Op: "farack", A: r.Intn(4)}
	case 4:
		return Step{Op: "pooo", B: r.Intn(3000), C: r.Intn(50)}
	case 0:
		sizes := []int{1, 10, 500, 1460, 5000, 70000}
		return Step{Op: "write", C: r.Range(1, sizes[r.Intn(len(sizes))])}
	case 1:
		wins := []int{0, 0, 1, 2, 100, 536, 1460, 4000, 65535}
		win := wins[r.Intn(len(wins))]
		if r.Chance(0.3) {
			win = r.Intn(65536)
		}
		return Step{Op: "ack", A: r.Pick(6, 2, 2), B: win}
	case 2:
		return Step{Op: "ptb", B: []int{68, 296, 576, 1006, 1280, 1400}[r.Intn(6)]}
	}
	return Step{Op: "adv", D: int64(time.Duration(r.Range(1, 3000)) * time.Millisecond)}
}

// ---- role 1: the stack receives; its advertised right edge must be honest ----

func (w *winWorld) observeReceiver() {
	p := w.p
	for _, d := range w.Take() {
		if d.TCP == nil || d.TCP.SrcPort != p.SPort || d.TCP.DstPort != p.PPort {
			continue
		}
		t := d.TCP
		if t.HasTS {
			p.TSRecent = t.TSVal
		}
		if t.Flags&(codec.FlagSYN|codec.FlagRST) != 0 || t.Flags&codec.FlagACK == 0 {
			continue
		}
		ack := int64(int32(t.Ack - (p.ISS + 1)))
		win := int64(t.Window) << uint(w.sws)
		edge := ack + win
		if w.haveEdge && edge <= w.lastEdge-(int64(1)<<uint(w.sws)) {
			w.Fail("window-shrunk", "", "advertised right edge moved left from stream offset %d to %d (ack=%d window=%d<<%d)", w.lastEdge, edge, ack, t.Window, w.sws)
		}
		if ack > w.maxSent {
			w.Fail("acked-unsent", "", "stack acknowledges stream offset %d, the peer has never sent anything beyond %d", ack, w.maxSent)
		}
		if ack > w.sent {
			w.sent = ack // bytes that had gone ahead out of order (true content) are now in order
		}
		w.lastEdge, w.haveEdge, w.lastAck, w.lastWin = edge, true, ack, win
		if t.Window == 0 {
			w.zeroSeen = true
			w.Probes["zero_window_advertised"]++
		}
	}
}

func (w *winWorld) readOne() bool {
	v, _, err := w.ep.Read(nil)
	if err != nil {
		return false
	}
	for i, b := range v {
		o := w.read + int64(i)
		if b != winByte(w.seed, 1, o) {
			if w.bogus[o] {
				w.Fail("data-beyond-window-delivered", "", "Read returned at stream offset %d a byte that was only ever sent in a segment lying wholly beyond the advertised window", o)
			} else {
				w.Fail("stream-corrupt", "", "Read returned 0x%02x at stream offset %d, the peer sent 0x%02x", b, o, winByte(w.seed, 1, o))
			}
			break
		}
	}
	w.read += int64(len(v))
	if w.read > w.maxSent {
		w.Fail("stream-invented", "", "application has read %d bytes, the peer never sent anything beyond %d", w.read, w.maxSent)
	}
	w.Settle()
	return true
}

// pwin is the window the peer advertises on its data segments in the receiver role.
func (w *winWorld) pwin() uint16 {
	if w.cfg.SendBlocked {
		return 0
	}
	return 65535
}

func (w *winWorld) receiverStep(s Step) {
	p := w.p
	mk := func(off int64, n int, bogus bool) []byte {
		b := make([]byte, n)
		for i := range b {
			b[i] = winByte(w.seed, 1, off+int64(i))
			if bogus {
				b[i] ^= 0xff
			}
		}
		return b
	}
	mss := 1400
	if p.StackMSS > 0 && p.StackMSS < mss {
		mss = p.StackMSS
	}
	n := s.B
	if n > mss {
		n = mss
	}
	if n < 1 {
		n = 1
	}
	switch s.Op {
	case "data":
		room := w.lastEdge - w.sent
		if !w.haveEdge {
			room = 65535
		}
		switch s.A {
		case 0: // in order, inside the advertised window
			if room <= 0 {
				return
			}
			if int64(n) > room {
				n = int(room)
			}
			p.Send(codec.FlagACK|codec.FlagPSH, p.ISS+1+uint32(w.sent), p.RcvNxt, w.pwin(), nil, mk(w.sent, n, false))
			start := w.sent
			w.sent += int64(n)
			if w.sent > w.maxSent {
				w.maxSent = w.sent
			}
			w.Probes["in_window_segments"]++
			w.observeReceiver()
			// in-order data inside the advertised window is accepted (acknowledged)
			if w.Viol == nil && w.lastAck < w.sent {
				w.Advance(500 * time.Millisecond)
				w.observeReceiver()
				if w.lastAck < w.sent {
					w.Fail("in-window-data-not-accepted", "", "in-order segment [%d,%d) inside the advertised window (right edge %d) was not acknowledged (ack stays at %d)", start, w.sent, w.lastEdge, w.lastAck)
				}
			}
			return
		case 1: // wholly beyond the right edge: bogus content, must never be delivered
			if !w.haveEdge {
				return
			}
			// beyond the promised edge: the 16-bit field shows it rounded down by up to 2^scale-1
			// (the first byte that is certainly outside is the one 2^scale-1 behind the visible edge; a quarter of
			// these segments begin exactly there - with scale 0 exactly at the edge)
			off := w.lastEdge + int64(1)<<uint(w.sws) - 1 + int64(s.C%3000)
			if s.C%4 == 0 {
				off = w.lastEdge + int64(1)<<uint(w.sws) - 1
				w.Probes["segments_beginning_exactly_at_the_right_edge"]++
			}
			p.Send(codec.FlagACK|codec.FlagPSH, p.ISS+1+uint32(off), p.RcvNxt, w.pwin(), nil, mk(off, n, true))
			for i := 0; i < n; i++ {
				w.bogus[off+int64(i)] = true
			}
			w.Probes["beyond_window_segments"]++
		case 2: // duplicate of old data
			if w.sent == 0 {
				return
			}
			off := w.sent - int64(s.C)%w.sent - 1
			if off < 0 {
				off = 0
			}
			if int64(n) > w.sent-off {
				n = int(w.sent - off)
			}
			p.Send(codec.FlagACK|codec.FlagPSH, p.ISS+1+uint32(off), p.RcvNxt, w.pwin(), nil, mk(off, n, false))
		case 4: // in order, starting inside the window and reaching beyond its right edge (true content: a receiver may keep more than it promised; only data wholly outside the window is forbidden)
			if !w.haveEdge || room <= 0 || room > 1400 {
				return
			}
			over := 1 + s.C%1500
			// the 16-bit field shows the edge rounded down by up to 2^scale-1: those bytes may be
			// inside the real window and carry true content; everything behind them is beyond it
			in := int(room) + 1<<uint(w.sws)
			// ... and it may begin a little before what the stack has already got (a re-segmented retransmission)
			back := int64(s.C/1500) % 60
			if back > w.sent {
				back = w.sent
			}
			start := w.sent - back
			seg := mk(start, int(back)+in+over, false)
			edge0 := w.lastEdge
			p.Send(codec.FlagACK|codec.FlagPSH, p.ISS+1+uint32(start), p.RcvNxt, w.pwin(), nil, seg)
			if e := w.sent + int64(in+over); e > w.maxSent {
				w.maxSent = e
			}
			// the part of it inside the advertised window is in-order data inside the window: accepted
			w.observeReceiver()
			if w.Viol == nil && w.lastAck < edge0 {
				w.Advance(500 * time.Millisecond)
				w.observeReceiver()
				if w.lastAck < edge0 {
					w.Fail("in-window-data-not-accepted", "", "a segment [%d,%d) that begins at or before the next expected byte and reaches beyond the advertised right edge %d was not acknowledged up to that edge (ack stays at %d): the part inside the window is in-order data", start, start+int64(len(seg)), edge0, w.lastAck)
				}
			}
			w.Probes["segments_straddling_the_right_edge"]++
			return
		case 3: // out of order but inside the window (true content); the gap is filled by later in-order data
			if room <= int64(n)+10 {
				return
			}
			gap := 1 + int64(s.C)%(room-int64(n))
			p.Send(codec.FlagACK|codec.FlagPSH, p.ISS+1+uint32(w.sent+gap), p.RcvNxt, w.pwin(), nil, mk(w.sent+gap, n, false))
			if e := w.sent + gap + int64(n); e > w.maxSent {
				w.maxSent = e
			}
			w.Probes["out_of_order_segments"]++
		}
	case "rcvbuf":
		// the application resizes its receive buffer: whatever was promised stays promised
		w.ep.SetSockOpt(tcpip.ReceiveBufferSizeOption([]int{256, 1024, 4096, 65536, 1 << 20}[s.A%5]))
		w.Settle()
		w.Probes["receive_buffer_resized"]++
	case "read":
		w.readOne()
	case "drain":
		hadZero := w.haveEdge && w.lastWin == 0
		w.Take()
		for w.readOne() {
		}
		w.observeReceiver()
		if hadZero && w.Viol == nil {
			// the window was closed and the application has now read everything:
			// a window update must follow without any further peer traffic
			if w.lastWin == 0 {
				w.Advance(time.Second)
				w.observeReceiver()
			}
			if w.lastWin == 0 {
				w.Fail("window-not-reopened", "", "the advertised window was 0, the application has read everything (%d bytes), yet no segment with a non-zero window followed", w.read)
			} else {
				w.Probes["window_reopened"]++
			}
		}
		return
	case "fill":
		// the application does not read; keep sending in-window data: the window must reach 0
		for i := 0; i < 4000 && w.Viol == nil; i++ {
			room := w.lastEdge - w.sent
			if !w.haveEdge || room <= 0 {
				break
			}
			k := mss
			if int64(k) > room {
				k = int(room)
			}
			p.Send(codec.FlagACK|codec.FlagPSH, p.ISS+1+uint32(w.sent), p.RcvNxt, w.pwin(), nil, mk(w.sent, k, false))
			w.sent += int64(k)
			if w.sent > w.maxSent {
				w.maxSent = w.sent
			}
			w.observeReceiver()
			if w.lastAck < w.sent {
				w.Advance(500 * time.Millisecond)
				w.observeReceiver()
			}
			if w.lastAck < w.sent && w.Viol == nil {
				w.Fail("in-window-data-not-accepted", "", "in-order segment ending at %d inside the advertised window (right edge %d) was not acknowledged (ack %d)", w.sent, w.lastEdge, w.lastAck)
			}
		}
		if w.Viol == nil && w.haveEdge && w.lastEdge-w.sent > 0 {
			w.Fail("window-never-closes", "", "the application reads nothing, 4000 in-window segments were accepted and the window is still open")
		}
		w.Probes["reader_stalled_until_zero_window"]++
		return
	case "adv":
		w.Advance(time.Duration(s.D))
	}
	w.observeReceiver()
}

func (w *winWorld) receiverNext() Step {
	r := w.Rng
	switch r.Pick(10, 6, 2, 1, 2, 1) {
	case 5:
		return Step{Op: "rcvbuf", A: r.Intn(5)}
	case 0:
		lens := []int{1, 2, 100, 536, 1000, 1400}
		return Step{Op: "data", A: r.Pick(8, 3, 2, 3, 1), B: lens[r.Intn(len(lens))], C: r.Intn(100000)}
	case 1:
		return Step{Op: "read"}
	case 2:
		return Step{Op: "drain"}
	case 3:
		return Step{Op: "fill"}
	}
	return Step{Op: "adv", D: int64(time.Duration(r.Range(1, 2000)) * time.Millisecond)}
}

func (scWindow) Run(t *testing.T, prop string, seed uint64, cfgRaw json.RawMessage, steps []Step, tape []byte, trace bool) *RunOut {
	var cfg WinCfg
	json.Unmarshal(cfgRaw, &cfg)
	o := &RunOut{Cfg: cfgRaw}
	savedThreshold := tcp.SynRcvdCountThreshold
	defer func() { tcp.SynRcvdCountThreshold = savedThreshold }()
	if cfg.Cookie {
		tcp.SynRcvdCountThreshold = 0
	}
	bubble(t, func() {
		w := &winWorld{PeerWorld: NewPeerWorld(seed, uint32(cfg.MTU), NodeOpts{SACK: cfg.SACK, CC: cfg.CC}), cfg: cfg}
		defer w.Close()
		w.TraceOn = trace
		w.YieldP = cfg.YieldP
		if steps != nil {
			w.Replay, w.Tape = true, tape
		}
		if !w.establish() {
			w.Probes["establish_failed"]++
			finish(w.World, o)
			return
		}
		if cfg.Role == 1 && cfg.SendBlocked {
			// the peer closes its window for good and the stack's application queues data that cannot leave:
			// from now on both directions are flow-controlled at once
			w.p.Send(codec.FlagACK, w.p.SndNxt, w.p.RcvNxt, 0, nil, nil)
			w.ep.Write(tcpip.SlicePayload(make([]byte, 600)), tcpip.WriteOptions{})
			w.Settle()
			w.Probes["stack_send_blocked_by_peer_window"]++
		}
		if cfg.Role == 1 {
			w.observeReceiver()
		}
		apply := func(s Step) {
			if cfg.Role == 0 {
				w.senderStep(s)
			} else {
				w.receiverStep(s)
			}
		}
		if steps == nil {
			for i := 0; i < cfg.MaxSteps && w.Viol == nil; i++ {
				var s Step
				if cfg.Role == 0 {
					s = w.senderNext()
				} else {
					s = w.receiverNext()
				}
				w.Steps = append(w.Steps, s)
				apply(s)
				w.NSteps++
			}
		} else {
			for _, s := range steps {
				apply(s)
				w.NSteps++
				if w.Viol != nil {
					break
				}
			}
			w.Steps = steps
		}
		if w.Viol != nil {
			stream := isStreamClass(w.Viol.Class)
			if prop != "C14" && prop != "C06" && (prop == "C01") != stream {
				// the stream oracle belongs to C01, everything else here to C04/C14
				w.Probes["other_property_"+w.Viol.Class]++
				w.Viol = nil
			}
		}
		w.crossProbes()
		w.OnEmit = nil
		w.ep.Close()
		w.Advance(70 * time.Second)
		finish(w.World, o)
		if w.Replay {
			o.Tape = tape
		}
		o.Nontrivial = (cfg.Role == 0 && w.Probes["acks_sent"] > 2 && w.peerNxt > 0) || (cfg.Role == 1 && w.read > 0)
	})
	return o
}

// crossProbes records whether the stream crossed a sequence-space boundary.
func (w *winWorld) crossProbes() {
	p := w.p
	if w.cfg.Role == 0 && w.peerNxt > 0 {
		a, b := p.StackISS+1, p.StackISS+1+uint32(w.peerNxt)
		if b < a {
			w.Probes["own_stream_crossed_2^32"]++
		}
		if a < 1<<31 && b >= 1<<31 {
			w.Probes["own_stream_crossed_2^31"]++
		}
	}
	if w.cfg.Role == 1 && w.read > 0 {
		a, b := p.ISS+1, p.ISS+1+uint32(w.read)
		if b < a {
			w.Probes["peer_stream_crossed_2^32"]++
		}
		if a < 1<<31 && b >= 1<<31 {
			w.Probes["peer_stream_crossed_2^31"]++
		}
	}
}

package netsim

import (
	"encoding/json"
	"fmt"
	"io"
	"log"
	"os"
	"path/filepath"
	"strconv"
	"strings"
	"testing"
	"testing/synctest"
	"time"

	"verif/sim"
)

// Trace is a replay file: configuration, the steps that were applied, the
// yield tape, and the verdict.
type Trace struct {
	Property string          `json:"property"`
	Seed     uint64          `json:"seed"`
	Scenario string          `json:"scenario"`
	Tier     string          `json:"tier,omitempty"`
	Kind     string          `json:"kind,omitempty"`   // "seed": re-run the seed (crash/hang that took the worker down)
	Engine   string          `json:"engine,omitempty"` // "netsimx": recorded by the build with automatic schedule points (its tape counts those too)
	Cfg      json.RawMessage `json:"cfg"`
	Steps    []Step          `json:"steps"`
	Tape     []byte          `json:"yield_tape,omitempty"`
	Class    string          `json:"class,omitempty"`
	Detail   string          `json:"detail,omitempty"`
	Sig      string          `json:"signature,omitempty"`
	LogHash  string          `json:"loghash,omitempty"`
	Log      []string        `json:"event_log,omitempty"`
}

// engineName tells the two builds of this package apart: "netsimx" is compiled
// with the automatic schedule points of tools/autoyield (the runner names the
// binary), "" is the plain build.
func engineName() string {
	if strings.Contains(filepath.Base(os.Args[0]), "netsimx") {
		return "netsimx"
	}
	return ""
}

// RunOut is the outcome of one simulated run.
type RunOut struct {
	Viol       *Violation
	Hash       uint64
	Steps      []Step
	Tape       []byte
	NSteps     int
	SimNanos   int64
	Nontrivial bool
	Faults     map[string]int64
	Probes     map[string]int64
	Yields     map[string]int64
	Log        []string
	Cfg        json.RawMessage
	Sample     interface{}
	Rel        []relRec
	NoTwin     bool // (C14) the run's initial sequence number did not land where it was placed: no twin comparison
}

// Scenario is one simulated world kind.
type Scenario interface {
	// GenCfg draws the configuration of a run.
	GenCfg(rng *sim.Rand, tier, prop, variant string) json.RawMessage
	// Run executes one run inside a fresh bubble: explore (steps == nil) or
	// replay the given steps and yield tape verbatim.
	Run(t *testing.T, prop string, seed uint64, cfg json.RawMessage, steps []Step, tape []byte, trace bool) *RunOut
}

type propDef struct {
	scenario string
}

var scenarios = map[string]Scenario{}
var propScenario = map[string]string{}

func bubble(t *testing.T, f func()) (deadlock bool) {
	defer func() {
		if r := recover(); r != nil {
			if strings.Contains(fmt.Sprint(r), "deadlock") {
				deadlock = true
				return
			}
			panic(r)
		}
	}()
	synctest.Test(t, func(t *testing.T) { f() })
	return false
}

func finish(w *World, o *RunOut) {
	o.Viol = w.Viol
	o.Hash = uint64(w.Log)
	o.Steps = w.Steps
	o.Tape = w.Tape
	o.NSteps = w.NSteps
	o.SimNanos = w.SimNanos()
	o.Faults, o.Probes, o.Yields = w.Faults, w.Probes, w.Yields
	o.Log = w.Trace
	if w.rel != nil {
		o.Rel = w.rel.Recs
	}
}

func minimise(t *testing.T, sc Scenario, prop string, seed uint64, cfg json.RawMessage, out *RunOut) (steps []Step, tape []byte, best *RunOut) {
	class := out.Viol.Class
	steps, tape, best = out.Steps, out.Tape, out
	budget := 1500
	// (real time, outside any bubble: it only decides how far the shrinking goes - a long thorough-tier run must not
	// keep the worker silent until the runner's watchdog takes the minimisation for a hang)
	began := time.Now()
	test := func(s []Step, tp []byte) *RunOut {
		if budget <= 0 || time.Since(began) > 40*time.Second {
			return nil
		}
		budget--
		if s == nil {
			s = []Step{}
		}
		o := runSc(sc, t, prop, seed, cfg, s, tp, false)
		if o.Viol != nil && o.Viol.Class == class {
			return o
		}
		return nil
	}
	// the recorded run must reproduce before anything is shrunk
	if o := test(steps, tape); o == nil {
		return steps, tape, nil
	}
	// 1. all-zero yield tape
	if o := test(steps, []byte{}); o != nil {
		tape, best = []byte{}, o
	}
	// 2. drop steps
	kept := sim.Minimize(steps, budget, func(c []Step) bool { return test(c, tape) != nil })
	if o := test(kept, tape); o != nil {
		steps, best = kept, o
	}
	// 3. simplify what is left: faults -> plain delivery, long sleeps -> shorter
	for i := range steps {
		s := steps[i]
		var cand Step
		switch {
		case s.Op == "deliver" && s.B > 0:
			cand = Step{Op: "deliver", A: s.A, C: s.C}
		case s.Op == "deliver" && s.C > 0:
			cand = Step{Op: "deliver", A: s.A, B: s.B}
		case s.Op == "adv" && s.D > int64(1e6):
			cand = Step{Op: "adv", D: s.D / 2}
		default:
			continue
		}
		c2 := append([]Step(nil), steps...)
		c2[i] = cand
		if o := test(c2, tape); o != nil {
			steps, best = c2, o
		}
	}
	return steps, tape, best
}

func writeTrace(dir string, tr *Trace) (string, error) {
	os.MkdirAll(dir, 0o755)
	path := filepath.Join(dir, fmt.Sprintf("%s-%d.json", tr.Property, tr.Seed))
	b, _ := json.MarshalIndent(tr, "", " ")
	return path, os.WriteFile(path, b, 0o644)
}

// Worker is the body of TestWorker (same protocol as primsim).
func Worker(t *testing.T) {
	env := sim.LoadEnv()
	scName := propScenario[env.Prop]
	if v := env.Variant; v != "" && scenarios[v] != nil {
		scName = v
	}
	sc := scenarios[scName]
	if sc == nil && env.Mode == "replay" {
		// the replay file names its scenario
		for _, s := range scenarios {
			sc = s
			break
		}
	}
	if sc == nil {
		t.Fatalf("netsim: no scenario for property %q", env.Prop)
	}
	sim.PinProcess()
	sim.SeedRuntime(1)
	log.SetOutput(io.Discard)
	res := sim.NewResult(env.Prop)
	defer func() {
		res.WallS = env.Elapsed()
		if env.Out != "" {
			if err := res.Write(env.Out); err != nil {
				t.Fatalf("write result: %v", err)
			}
		}
	}()
	if env.Mode == "replay" {
		b, err := os.ReadFile(env.Replay)
		if err != nil {
			t.Fatalf("replay: %v", err)
		}
		var tr Trace
		if err := json.Unmarshal(b, &tr); err != nil {
			t.Fatalf("replay: %v", err)
		}
		if tr.Scenario != "" && scenarios[tr.Scenario] != nil {
			sc = scenarios[tr.Scenario]
		}
		if tr.Kind != "seed" && tr.Engine != engineName() {
			t.Fatalf("replay: recorded by engine build %q, this is %q", tr.Engine, engineName())
		}
		var o *RunOut
		if tr.Kind == "seed" {
			rng := sim.NewRand(sim.Mix(tr.Seed))
			cfg := sc.GenCfg(rng, tr.Tier, env.Prop, env.Variant)
			sim.SeedRuntime(sim.Mix(tr.Seed ^ 0x71e5))
			o = runSc(sc, t, env.Prop, tr.Seed, cfg, nil, nil, true)
		} else {
			steps := tr.Steps
			if steps == nil {
				steps = []Step{}
			}
			sim.SeedRuntime(sim.Mix(tr.Seed ^ 0x71e5))
			o = runSc(sc, t, env.Prop, tr.Seed, tr.Cfg, steps, tr.Tape, true)
		}
		res.Runs = 1
		res.Steps = int64(o.NSteps)
		res.SimNanos = o.SimNanos
		if o.Viol != nil {
			res.Violations = append(res.Violations, sim.Violation{Class: o.Viol.Class, Detail: o.Viol.Detail, Seed: tr.Seed, Replay: env.Replay, LogHash: fmt.Sprintf("%016x", o.Hash), Known: o.Viol.Sig})
		}
		if os.Getenv("VERIF_DEBUG") != "" {
			for _, l := range o.Log {
				fmt.Fprintln(os.Stderr, l)
			}
		}
		return
	}
	seen := map[uint64]bool{}
	known := sim.LoadKnown()
	knownKept := map[string]bool{}
	fresh := 0
	for i := 0; env.More(i); i++ {
		seed := env.Seed0 + uint64(i)
		env.Mark(seed)
		rng := sim.NewRand(sim.Mix(seed))
		cfg := sc.GenCfg(rng, env.Tier, env.Prop, env.Variant)
		sim.SeedRuntime(sim.Mix(seed ^ 0x71e5))
		o := runSc(sc, t, env.Prop, seed, cfg, nil, nil, false)
		if n, _ := strconv.Atoi(os.Getenv("VERIF_REPEAT")); n > 0 {
			// determinism self-test: the same seed, run again in the same process, must give the same event log
			for k := 0; k < n; k++ {
				o2 := runSc(sc, t, env.Prop, seed, cfg, nil, nil, false)
				if os.Getenv("VERIF_DEBUG") != "" {
					fmt.Fprintf(os.Stderr, "repeat %d: %016x (first %016x)\n", k, o2.Hash, o.Hash)
				}
				if o2.Hash != o.Hash {
					res.Notes = append(res.Notes, fmt.Sprintf("selftest: seed %d run again gives a different event log (%016x vs %016x)", seed, o.Hash, o2.Hash))
					res.Inconclusive++
					break
				}
			}
		}
		if os.Getenv("VERIF_YTRACE") == "sites" {
			os.WriteFile(fmt.Sprintf("/tmp/sites-%d.txt", os.Getpid()), []byte(strings.Join(YTrace, "\n")), 0o644)
		}
		if os.Getenv("VERIF_SELFTEST") != "" {
			// determinism self-test: the recording of a run, replayed, must give the same event log
			st := o.Steps
			if st == nil {
				st = []Step{}
			}
			o2 := runSc(sc, t, env.Prop, seed, o.Cfg, st, o.Tape, false)
			if o2.Hash != o.Hash && os.Getenv("VERIF_DEBUG") != "" {
				os.WriteFile("/tmp/selftest-0.ytrace", []byte(strings.Join(YTrace, "\n")), 0o644)
				YTrace = nil
				a := runSc(sc, t, env.Prop, seed, cfg, nil, nil, true)
				os.WriteFile("/tmp/selftest-a.ytrace", []byte(strings.Join(YTrace, "\n")), 0o644)
				YTrace = nil
				b := runSc(sc, t, env.Prop, seed, o.Cfg, st, o.Tape, true)
				os.WriteFile("/tmp/selftest-b.ytrace", []byte(strings.Join(YTrace, "\n")), 0o644)
				os.WriteFile("/tmp/selftest-a.log", []byte(strings.Join(a.Log, "\n")), 0o644)
				os.WriteFile("/tmp/selftest-b.log", []byte(strings.Join(b.Log, "\n")), 0o644)
				fmt.Fprintf(os.Stderr, "tape lens %d %d steps %d %d\n", len(a.Tape), len(b.Tape), len(a.Steps), len(b.Steps))
			}
			if o2.Hash != o.Hash {
				res.Notes = append(res.Notes, fmt.Sprintf("selftest: seed %d replays to a different event log (%016x vs %016x)", seed, o.Hash, o2.Hash))
				res.Inconclusive++
			}
		}
		res.Runs++
		res.Steps += int64(o.NSteps)
		res.SimNanos += o.SimNanos
		for k, v := range o.Faults {
			res.Faults[k] += v
		}
		for k, v := range o.Probes {
			res.Probes[k] += v
		}
		for k, v := range o.Yields {
			res.Yields[k] += v
		}
		if o.Nontrivial {
			res.Nontrivial++
			if !seen[o.Hash] {
				seen[o.Hash] = true
				res.Hashes = append(res.Hashes, o.Hash)
			}
			if len(res.Samples) < 2 {
				st := o.Steps
				if len(st) > 40 {
					st = st[:40]
				}
				res.AddSample(map[string]interface{}{"seed": seed, "cfg": o.Cfg, "first_steps": st, "steps": o.NSteps, "sim_seconds": float64(o.SimNanos) / 1e9, "faults": o.Faults, "outcome": "held"})
			}
		}
		if o.Viol != nil {
			if k := sim.MatchKnown(known, env.Prop, o.Viol.Class, o.Viol.Detail); k != nil {
				res.Probes["known_finding_"+k.ID]++
				if knownKept[k.ID] {
					continue // one minimised replay per listed finding is enough
				}
				knownKept[k.ID] = true
			} else {
				fresh++
			}
			sim.SeedRuntime(sim.Mix(seed ^ 0x71e5))
			steps, tape, best := minimise(t, sc, env.Prop, seed, o.Cfg, o)
			if best == nil {
				res.Notes = append(res.Notes, fmt.Sprintf("seed %d: violation %s did not reproduce when its own recording was replayed (non-reproducible)", seed, o.Viol.Class))
				res.Inconclusive++
				best, steps, tape = o, o.Steps, o.Tape
			}
			// final replay with the event log switched on
			sim.SeedRuntime(sim.Mix(seed ^ 0x71e5))
			if steps == nil {
				steps = []Step{}
			}
			final := runSc(sc, t, env.Prop, seed, o.Cfg, steps, tape, true)
			if final.Viol == nil || final.Viol.Class != best.Viol.Class {
				// the minimised recording does not reproduce: not a verdict
				res.Notes = append(res.Notes, fmt.Sprintf("seed %d: violation %s is not reproduced by its own minimised recording (non-reproducible)", seed, best.Viol.Class))
				res.Inconclusive++
				continue
			}
			lg := final.Log
			if len(lg) > 400 {
				lg = lg[len(lg)-400:]
			}
			tr := &Trace{Property: env.Prop, Seed: seed, Scenario: scName, Tier: env.Tier, Engine: engineName(), Cfg: o.Cfg, Steps: steps, Tape: tape,
				Class: final.Viol.Class, Detail: final.Viol.Detail, Sig: final.Viol.Sig, LogHash: fmt.Sprintf("%016x", final.Hash), Log: lg}
			path, err := writeTrace(env.Dir, tr)
			if err != nil {
				t.Fatalf("write replay: %v", err)
			}
			res.Violations = append(res.Violations, sim.Violation{Class: tr.Class, Detail: tr.Detail, Seed: seed, Replay: path, LogHash: tr.LogHash, Known: tr.Sig})
			if fresh >= 3 {
				break
			}
		}
		if i%64 == 63 {
			sim.BetweenRuns()
		}
	}
}

// runSc seeds the runtime's timer-tie stream from the run's seed and executes
// the run: every execution of (seed, cfg, steps, tape) starts from the same
// runtime state, whether it is the first exploration, a minimisation candidate
// or a replay in a fresh process.
func runSc(sc Scenario, t *testing.T, prop string, seed uint64, cfg json.RawMessage, steps []Step, tape []byte, trace bool) *RunOut {
	sim.SeedRuntime(sim.Mix(seed ^ 0x71e5))
	currentProp = prop
	pendingReplay = nil
	if steps != nil {
		tp := tape
		pendingReplay = &tp
	}
	defer func() { pendingReplay = nil }()
	o := sc.Run(t, prop, seed, cfg, steps, tape, trace)
	if n, ok := sc.(Neutraliser); ok && prop == "C14" && o.Viol == nil && !o.NoTwin {
		// the neutral twin: same seed, steps and tape, initial sequence numbers mid-space
		st, tp := o.Steps, o.Tape
		if st == nil {
			st = []Step{}
		}
		sim.SeedRuntime(sim.Mix(seed ^ 0x71e5))
		pendingReplay = &tp
		o2 := sc.Run(t, prop, seed, n.NeutralISS(o.Cfg), st, tp, false)
		o.Probes["neutral_twin_runs"]++
		o.Probes["tcp_segments_compared"] += int64(len(o.Rel))
		switch {
		case o2.Viol != nil:
			o.Viol = &Violation{Class: "depends-on-initial-sequence-number", Detail: fmt.Sprintf("the run holds with the initial sequence numbers next to the wrap but its twin started mid-space fails with %s: %s", o2.Viol.Class, o2.Viol.Detail)}
		default:
			if d := relDiff(o.Rel, o2.Rel); d != "" {
				o.Viol = &Violation{Class: "depends-on-initial-sequence-number", Detail: d}
			}
		}
	}
	return o
}

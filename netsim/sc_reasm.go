package netsim

import (
	"bytes"
	"encoding/json"
	"sort"
	"testing"
	"time"

	"verif/netsim/codec"
	"verif/sim"

	"github.com/brewlin/net-protocol/pkg/waiter"
	tcpip "github.com/brewlin/net-protocol/protocol"
	"github.com/brewlin/net-protocol/protocol/network/ipv4"
	"github.com/brewlin/net-protocol/protocol/transport/udp"
)

// scReasm: C08 from the wire. Fragments of UDP datagrams and of ICMP echo
// requests reach one real stack through its link layer: ipv4.HandlePacket
// derives the reassembly key from source, destination, protocol and
// identification, caps the frame to the IP total length and feeds
// fragmentation.Process; what the transport layer receives is read back from
// the bound UDP sockets (and from the echo replies). Several datagrams whose
// keys differ in exactly one component are in flight at once, fragments come in
// any order, duplicated, re-cut with overlaps, padded by the link layer, and
// spread over time across the 30 s reassembly timeout.
type scReasm struct{}

func init() { scenarios["reasm"] = scReasm{} }

type ReasmCfg struct {
	MaxSteps int     `json:"max_steps"`
	YieldP   float64 `json:"yield_p"`
	Mode     int     `json:"view_mode"`
}

func (scReasm) GenCfg(rng *sim.Rand, tier, prop, variant string) json.RawMessage {
	c := ReasmCfg{MaxSteps: rng.Range(6, 60), Mode: rng.Intn(3)}
	if rng.Chance(0.3) {
		c.YieldP = []float64{0.05, 0.3}[rng.Intn(2)]
	}
	b, _ := json.Marshal(c)
	return b
}

const reasmTimeout = 30 * time.Second // ipv4 passes fragmentation.DefaultReassembleTimeout

var (
	rsSrc   = []tcpip.Address{"\x0a\x00\x00\x02", "\x0a\x00\x00\x03", "\x0a\x00\x00\x07", "\x0a\x00\x01\x02", "\x0b\x00\x00\x02"}
	rsDst   = []tcpip.Address{A4, "\x0a\x00\x00\x09"}
	rsPorts = []uint16{7000, 7001}
)

type rsFrag struct {
	off, n int
	more   bool
}

type rsInj struct {
	off, n int
	more   bool
	at     time.Duration
	seq    int
}

type rsDgram struct {
	uid     int
	src     tcpip.Address
	dst     tcpip.Address
	proto   uint8
	id      uint16
	sport   uint16
	dport   uint16
	payload []byte // application payload (UDP) / echo data (ICMP)
	ip      []byte // IP payload: transport header + payload
	cuts    [][]rsFrag
	injs    []rsInj
	df      bool // its fragments carry the don't-fragment bit as well (RFC 791 copies the flag into every fragment)
	opts    int  // 0 none; 1 IP options in the first fragment only (options not marked "copied"); 2 in every fragment
	lastDel int  // seq of the last delivery (0 = none)
	ndel    int
	ident   uint16
}

type rsKey struct {
	src, dst string
	proto    uint8
	id       uint16
}

type reasmWorld struct {
	*PeerWorld
	cfg    ReasmCfg
	socks  map[uint16]tcpip.Endpoint
	dgrams []*rsDgram
	seq    int
	lastOn map[rsKey]time.Duration // when a fragment with this key was last injected
	owner  map[rsKey]int           // uid of the datagram that currently uses the key
}

func (w *reasmWorld) now() time.Duration { return time.Since(w.T0) }

func rsByte(seed uint64, uid, i int) byte {
	return byte(sim.Mix(seed^uint64(uid)<<32^uint64(i)) >> 17)
}

// cut splits [0,n) at 8-byte-aligned points into k pieces.
func rsCut(r *sim.Rand, n, k int) []rsFrag {
	pts := map[int]bool{}
	for len(pts) < k-1 && (n-1)/8 >= 1 {
		p := 8 * r.Range(1, (n-1)/8)
		if p < n {
			pts[p] = true
		}
		if len(pts) >= (n-1)/8 {
			break
		}
	}
	var ps []int
	for p := range pts {
		ps = append(ps, p)
	}
	sort.Ints(ps)
	ps = append(ps, n)
	var fr []rsFrag
	prev := 0
	for _, p := range ps {
		fr = append(fr, rsFrag{off: prev, n: p - prev, more: p != n})
		prev = p
	}
	return fr
}

// newDgram creates a datagram whose key is free: not used by any datagram that
// had a fragment on the wire during the last reassembly timeout.
func (w *reasmWorld) newDgram(r *sim.Rand, near *rsDgram) *rsDgram {
	for try := 0; try < 20; try++ {
		d := &rsDgram{uid: len(w.dgrams) + 1, src: rsSrc[r.Intn(len(rsSrc))], dst: rsDst[r.Intn(len(rsDst))], proto: codec.ProtoUDP,
			id: uint16(100 + r.Intn(3)), sport: uint16(9000 + r.Intn(2)), dport: rsPorts[r.Intn(len(rsPorts))]}
		if r.Chance(0.2) {
			d.proto = codec.ProtoICMP
		}
		if near != nil {
			// the same key as near's in all components but one
			d.src, d.dst, d.proto, d.id = near.src, near.dst, near.proto, near.id
			switch r.Intn(4) {
			case 0:
				for d.src == near.src {
					d.src = rsSrc[r.Intn(len(rsSrc))]
				}
			case 1:
				d.dst = rsDst[0]
				if near.dst == rsDst[0] {
					d.dst = rsDst[1]
				}
			case 2:
				d.proto = codec.ProtoUDP + codec.ProtoICMP - near.proto
			case 3:
				d.id = near.id + 1 + uint16(r.Intn(2))*255
			}
		}
		k := rsKey{string(d.src), string(d.dst), d.proto, d.id}
		if t, used := w.lastOn[k]; used && w.now()-t <= reasmTimeout+time.Second {
			continue
		}
		n := r.Range(9, 400)
		if r.Chance(0.3) {
			n = r.Range(400, 3000)
		}
		big := d.proto == codec.ProtoUDP && r.Chance(0.06)
		if big {
			n = r.Range(33000, 65000) // its later fragments start beyond byte 32768: the 13-bit offset field is used in full
			w.Probes["datagrams_beyond_32k"]++
		}
		d.payload = make([]byte, n)
		for i := range d.payload {
			d.payload[i] = rsByte(w.seed, d.uid, i)
		}
		if d.proto == codec.ProtoUDP {
			d.ip = codec.EncodeUDP([]byte(d.src), []byte(d.dst), d.sport, d.dport, d.payload)
		} else {
			d.ident = uint16(0x7000 + d.uid)
			d.ip = codec.EncodeEcho([]byte(d.src), []byte(d.dst), false, false, d.ident, uint16(d.uid), d.payload)
		}
		d.df = r.Chance(0.2)
		if r.Chance(0.15) && !big {
			d.opts = 1 + r.Intn(2)
		}
		for c := r.Range(1, 2); c > 0; c-- {
			k := r.Range(2, 6)
			if r.Chance(0.2) {
				k = r.Range(16, 40) // many small fragments: the reassembler's hole list grows past its first allocation
			}
			if big {
				k = r.Range(3, 46) // down to about 1480 bytes a piece
			}
			d.cuts = append(d.cuts, rsCut(r, len(d.ip), k))
		}
		w.dgrams = append(w.dgrams, d)
		w.owner[k] = d.uid
		return d
	}
	return nil
}

// inject puts one fragment on the wire, optionally followed by link-layer padding.
func (w *reasmWorld) inject(d *rsDgram, f rsFrag, pad int) {
	k := rsKey{string(d.src), string(d.dst), d.proto, d.id}
	if w.owner[k] != d.uid {
		return // the key has been taken over by a newer datagram: this one is retired
	}
	pkt := codec.IPv4([]byte(d.src), []byte(d.dst), d.proto, d.id, 64, d.df, f.more, f.off, d.ip[f.off:f.off+f.n])
	if d.opts == 2 || (d.opts == 1 && f.off == 0) {
		// options belong to the header: what is reassembled is the payload behind them
		o := codec.OptRouterAlert()
		if d.opts == 1 {
			o = codec.OptRecordRoute(1 + d.uid%3)
		}
		pkt = codec.IPv4Opts([]byte(d.src), []byte(d.dst), d.proto, d.id, 64, d.df, f.more, f.off, o, d.ip[f.off:f.off+f.n])
		w.Probes["fragments_with_ip_options"]++
	}
	if d.df {
		w.Probes["fragments_carrying_df"]++
	}
	for i := 0; i < pad; i++ {
		pkt = append(pkt, byte(0xe0+i))
	}
	w.seq++
	d.injs = append(d.injs, rsInj{off: f.off, n: f.n, more: f.more, at: w.now(), seq: w.seq})
	w.lastOn[k] = w.now()
	w.Inject(w.S.Link, ipv4.ProtocolNumber, pkt, "", "", w.cfg.Mode)
	w.Probes["fragments_injected"]++
	if pad > 0 {
		w.Probes["fragments_with_link_padding"]++
	}
	w.collect()
}

// covered: the fragments of d received after its last delivery and within the
// reassembly timeout before now cover the whole datagram, last fragment included.
func (w *reasmWorld) covered(d *rsDgram, sinceSeq int, strictlyNow bool) bool {
	cov := make([]bool, len(d.ip))
	last := false
	for _, x := range d.injs {
		if x.seq <= sinceSeq {
			continue
		}
		if w.now()-x.at > reasmTimeout {
			continue
		}
		if strictlyNow && x.at != w.now() {
			continue
		}
		for i := x.off; i < x.off+x.n; i++ {
			cov[i] = true
		}
		if !x.more && x.off+x.n == len(d.ip) {
			last = true
		}
	}
	if !last {
		return false
	}
	for _, c := range cov {
		if !c {
			return false
		}
	}
	return true
}

// collect reads every socket and every echo reply, and judges each delivery.
func (w *reasmWorld) collect() {
	w.Settle()
	for _, port := range rsPorts {
		ep := w.socks[port]
		for {
			var from tcpip.FullAddress
			v, _, err := ep.Read(&from)
			if err != nil {
				break
			}
			w.delivered(codec.ProtoUDP, v, from.Addr, from.Port, port, 0)
		}
	}
	for _, f := range w.Take() {
		if f.ICMP != nil && !f.IP.V6 && f.ICMP.Type == 0 {
			w.delivered(codec.ProtoICMP, f.ICMP.Data, tcpip.Address(f.IP.Dst), 0, 0, f.ICMP.Ident)
		}
	}
}

func (w *reasmWorld) delivered(proto uint8, v []byte, from tcpip.Address, fport, port uint16, ident uint16) {
	w.seq++
	var d *rsDgram
	for _, x := range w.dgrams {
		if x.proto != proto || len(x.payload) == 0 {
			continue
		}
		if proto == codec.ProtoICMP {
			if x.ident == ident {
				d = x
			}
			continue
		}
		// identify by the first bytes: content is keyed by datagram and position
		if len(v) >= 4 && bytes.Equal(v[:4], x.payload[:4]) {
			d = x
		}
	}
	if d == nil {
		w.Fail("corrupt-payload", "", "the transport layer received %d bytes (first % x) that are the beginning of no datagram that was sent", len(v), head(v, 8))
		return
	}
	if !bytes.Equal(v, d.payload) {
		i := 0
		for i < len(v) && i < len(d.payload) && v[i] == d.payload[i] {
			i++
		}
		w.Fail("corrupt-payload", "", "datagram %d (% x -> % x, protocol %d, identification %d, %d payload bytes) was handed up as %d bytes differing from the original at offset %d (bytes of another datagram, of link-layer padding, or of another position)", d.uid, []byte(d.src), []byte(d.dst), d.proto, d.id, len(d.payload), len(v), i)
		return
	}
	if proto == codec.ProtoUDP && (from != d.src || fport != d.sport || port != d.dport) {
		w.Fail("corrupt-payload", "", "datagram %d from % x:%d to port %d was handed to port %d as coming from % x:%d", d.uid, []byte(d.src), d.sport, d.dport, port, []byte(from), fport)
		return
	}
	if !w.covered(d, d.lastDel, false) {
		w.Fail("premature-delivery", "", "datagram %d (identification %d) was handed up although the fragments received since its last delivery and within the %v reassembly timeout do not cover it (or lack the last fragment): stale or missing fragments were used", d.uid, d.id, reasmTimeout)
		return
	}
	d.lastDel = w.seq
	d.ndel++
	w.Probes["datagrams_reassembled"]++
	if d.ndel > 1 {
		w.Probes["reassembled_again_from_duplicates"]++
	}
}

func (w *reasmWorld) apply(s Step) {
	r := sim.NewRand(sim.Mix(w.seed ^ uint64(s.A)<<20 ^ uint64(s.B)<<8 ^ 0x08))
	switch s.Op {
	case "whole":
		// two fresh datagrams whose keys differ in one component, all fragments of both
		// interleaved in random order within one instant: both must come out intact
		d1 := w.newDgram(r, nil)
		if d1 == nil {
			return
		}
		ds := []*rsDgram{d1}
		if s.C%3 != 0 {
			if d2 := w.newDgram(r, d1); d2 != nil {
				ds = append(ds, d2)
				w.Probes["near_key_pairs"]++
			}
		}
		type item struct {
			d *rsDgram
			f rsFrag
		}
		var items []item
		for _, d := range ds {
			for _, f := range d.cuts[0] {
				items = append(items, item{d, f})
				if r.Chance(0.15) {
					items = append(items, item{d, f})
				}
			}
			if len(d.cuts) > 1 && r.Chance(0.3) {
				f := d.cuts[1][r.Intn(len(d.cuts[1]))]
				items = append(items, item{d, f}) // an overlapping piece from a second cut
				w.Probes["overlapping_fragments"]++
			}
		}
		for i := len(items) - 1; i > 0; i-- {
			j := r.Intn(i + 1)
			items[i], items[j] = items[j], items[i]
		}
		before := map[int]int{}
		for _, d := range ds {
			before[d.uid] = d.ndel
		}
		for _, it := range items {
			pad := 0
			if r.Chance(0.3) {
				pad = r.Range(1, 26)
			}
			w.inject(it.d, it.f, pad)
			if w.Viol != nil {
				return
			}
		}
		for _, d := range ds {
			if d.ndel == before[d.uid] {
				w.Fail("missing-delivery", "", "datagram %d (% x -> % x, protocol %d, identification %d, %d bytes in %d fragments): a complete set of fragments was received within one instant, yet nothing was handed up", d.uid, []byte(d.src), []byte(d.dst), d.proto, d.id, len(d.ip), len(d.cuts[0]))
				return
			}
		}
		w.Probes["whole_datagrams"] += int64(len(ds))
	case "new":
		w.newDgram(r, nil)
	case "piece":
		// one fragment of a datagram that arrives slowly
		if len(w.dgrams) == 0 {
			return
		}
		d := w.dgrams[s.A%len(w.dgrams)]
		c := d.cuts[s.B%len(d.cuts)]
		pad := 0
		if s.C%4 == 0 {
			pad = 1 + s.C%20
		}
		w.inject(d, c[int(s.D)%len(c)], pad)
	case "adv":
		w.Advance(time.Duration(s.D))
		w.collect()
		w.Probes["clock_advances"]++
	}
}

func (w *reasmWorld) next() Step {
	r := w.Rng
	switch r.Pick(3, 2, 10, 4) {
	case 0:
		return Step{Op: "whole", A: r.Intn(1 << 20), B: r.Intn(1 << 20), C: r.Intn(6)}
	case 1:
		return Step{Op: "new", A: r.Intn(1 << 20), B: r.Intn(1 << 20)}
	case 2:
		a := r.Intn(64)
		if len(w.dgrams) > 0 && r.Chance(0.7) {
			a = len(w.dgrams) - 1 - r.Intn(min(3, len(w.dgrams))) // mostly the youngest datagrams
		}
		return Step{Op: "piece", A: a, B: r.Intn(2), C: r.Intn(40), D: int64(r.Intn(8))}
	}
	return Step{Op: "adv", D: int64(time.Duration([]int{1, 5, 10, 12, 20, 29, 31, 40}[r.Intn(8)]) * time.Second)}
}

func (scReasm) Run(t *testing.T, prop string, seed uint64, cfgRaw json.RawMessage, steps []Step, tape []byte, trace bool) *RunOut {
	var cfg ReasmCfg
	json.Unmarshal(cfgRaw, &cfg)
	o := &RunOut{Cfg: cfgRaw}
	bubble(t, func() {
		w := &reasmWorld{PeerWorld: NewPeerWorld(seed, 65535, NodeOpts{}), cfg: cfg, socks: map[uint16]tcpip.Endpoint{}, lastOn: map[rsKey]time.Duration{}, owner: map[rsKey]int{}}
		defer w.Close()
		w.TraceOn = trace
		w.YieldP = cfg.YieldP
		must(w.S.S.AddAddress(1, ipv4.ProtocolNumber, rsDst[1]), "second address")
		w.S.Link.Addrs = append(w.S.Link.Addrs, rsDst[1])
		for _, p := range rsPorts {
			ep, err := w.S.S.NewEndpoint(udp.ProtocolNumber, ipv4.ProtocolNumber, &waiter.Queue{})
			must(err, "udp endpoint")
			must(ep.Bind(tcpip.FullAddress{Port: p}, nil), "bind")
			w.socks[p] = ep
		}
		w.Settle()
		if steps == nil {
			for i := 0; i < cfg.MaxSteps && w.Viol == nil; i++ {
				st := w.next()
				w.Steps = append(w.Steps, st)
				w.apply(st)
				w.NSteps++
			}
		} else {
			for _, st := range steps {
				w.apply(st)
				w.NSteps++
				if w.Viol != nil {
					break
				}
			}
			w.Steps = steps
		}
		w.OnEmit = nil
		for _, p := range rsPorts {
			w.socks[p].Close()
		}
		w.Advance(70 * time.Second)
		finish(w.World, o)
		if w.Replay {
			o.Tape = tape
		}
		o.Nontrivial = w.Probes["datagrams_reassembled"] > 0
	})
	return o
}

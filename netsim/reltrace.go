package netsim

import (
	"encoding/json"
	"fmt"
	"time"

	"verif/sim"

	tcpip "github.com/brewlin/net-protocol/protocol"
)

// C14's metamorphic oracle. A run is a deterministic function of (seed,
// configuration, steps, yield tape); the harness addresses everything by
// stream offsets, never by absolute sequence numbers. Run twice - once with
// the initial sequence numbers placed just below 2^31 / 2^32 and once with
// them placed in the middle of the space, everything else identical - the
// stack must therefore emit the same TCP segments at the same simulated
// instants once sequence and acknowledgement numbers are taken relative to
// the initial sequence number of their direction. Any difference means some
// comparison, window or range computation depends on where the connection
// starts in the 32-bit space.

type relRec struct {
	At       time.Duration
	Link     int
	SP, DP   uint16
	Flags    uint8
	Seq, Ack uint32 // relative to the ISS of their direction
	Known    uint8  // bit 0: Seq is relative, bit 1: Ack is relative
	Win      uint16
	Len      int
	Pay      uint32
	Sack     string
}

func (r relRec) String() string {
	fl := ""
	for i, n := range []string{"F", "S", "R", "P", "A"} {
		if r.Flags&(1<<uint(i)) != 0 {
			fl += n
		}
	}
	s := fmt.Sprintf("t=%v link=%d tcp %d>%d [%s] seq=ISS+%d ack=ISS'+%d win=%d len=%d", r.At, r.Link, r.SP, r.DP, fl, r.Seq, r.Ack, r.Win, r.Len)
	if r.Known&1 == 0 {
		s += " (seq base unknown)"
	}
	if r.Sack != "" {
		s += " sack=" + r.Sack
	}
	return s
}

type relKey struct{ sp, dp uint16 }

type relTrace struct {
	iss  map[relKey]uint32
	Recs []relRec
}

func (rt *relTrace) learn(t *tcpPeek) {
	if t.Flags&0x02 != 0 { // SYN: the direction's initial sequence number
		rt.iss[relKey{t.SrcPort, t.DstPort}] = t.Seq
	}
}

// relObserve is called for every frame entering or leaving a stack while C14 is decided.
func (w *World) relObserve(proto tcpip.NetworkProtocolNumber, data []byte, link int, emitted bool) {
	if currentProp != "C14" {
		return
	}
	t, ok := peekTCP(&Frame{Proto: proto, Data: data})
	if !ok {
		return
	}
	if w.rel == nil {
		w.rel = &relTrace{iss: map[relKey]uint32{}}
	}
	rt := w.rel
	rt.learn(t)
	if !emitted {
		return
	}
	r := relRec{At: time.Since(w.T0), Link: link, SP: t.SrcPort, DP: t.DstPort, Flags: t.Flags, Win: t.Window, Len: len(t.Payload)}
	if len(t.Payload) > 0 {
		r.Pay = uint32(sim.Mix(uint64(len(t.Payload))^uint64(t.Payload[0])<<32^uint64(t.Payload[len(t.Payload)-1])<<40) >> 32)
	}
	if b, ok := rt.iss[relKey{t.SrcPort, t.DstPort}]; ok {
		r.Seq, r.Known = t.Seq-b, r.Known|1
	}
	if t.Flags&0x10 != 0 {
		if b, ok := rt.iss[relKey{t.DstPort, t.SrcPort}]; ok {
			r.Ack, r.Known = t.Ack-b, r.Known|2
			for _, s := range t.SACK {
				r.Sack += fmt.Sprintf("[%d,%d)", s[0]-b, s[1]-b)
			}
		}
	}
	rt.Recs = append(rt.Recs, r)
}

// Neutraliser is implemented by scenarios whose configuration places initial
// sequence numbers: NeutralISS returns the same configuration with every
// placement moved to the middle of the sequence space.
type Neutraliser interface {
	NeutralISS(cfg json.RawMessage) json.RawMessage
}

// issBase returns the base a placement counts back from: 2^31 or 2^32 (0), or
// a harmless mid-space value when the run is the neutral twin.
func issBase(mode int, neutral bool) uint32 {
	hi := mode%2 == 0 // modes 2 and 4 sit below 2^32, modes 1 and 3 below 2^31
	switch {
	case neutral && hi:
		return 0x60000000
	case neutral:
		return 0x30000000
	case hi:
		return 0
	}
	return 1 << 31
}

func relDiff(a, b []relRec) string {
	n := len(a)
	if len(b) < n {
		n = len(b)
	}
	for i := 0; i < n; i++ {
		if a[i] != b[i] {
			return fmt.Sprintf("segment %d differs: with the initial sequence numbers next to the wrap the stack emitted {%v}; started mid-space it emitted {%v}", i, a[i], b[i])
		}
	}
	if len(a) != len(b) {
		var extra relRec
		if len(a) > n {
			extra = a[n]
		} else {
			extra = b[n]
		}
		return fmt.Sprintf("the stack emitted %d TCP segments with the initial sequence numbers next to the wrap and %d started mid-space; first unmatched: {%v}", len(a), len(b), extra)
	}
	return ""
}

package netsim

import (
	"encoding/json"
	"fmt"
	"testing"
	"time"

	"verif/netsim/codec"
	"verif/sim"

	"github.com/brewlin/net-protocol/pkg/rand"
	"github.com/brewlin/net-protocol/pkg/waiter"
	tcpip "github.com/brewlin/net-protocol/protocol"
	"github.com/brewlin/net-protocol/protocol/network/ipv4"
	"github.com/brewlin/net-protocol/protocol/network/ipv6"
	"github.com/brewlin/net-protocol/protocol/transport/tcp"
)

// scHandshake: C03 - connections exist only after a correct handshake; strays
// are reset. A run is a history of independent episodes (own port pair each)
// against one stack with a listener on port 80: passive opens, active opens,
// segments for ports nobody listens on. Step{Op:"ep", A: kind, B: sub-seed}.
type scHandshake struct{}

func init() {
	scenarios["handshake"] = scHandshake{}
	propScenario["C03"] = "handshake"
}

type HSCfg struct {
	V6       bool    `json:"v6"`
	Cookie   bool    `json:"cookie_mode"` // SYN-RCVD threshold 0: every SYN is answered with a stateless cookie
	MTU      int     `json:"mtu"`
	Episodes int     `json:"episodes"`
	YieldP   float64 `json:"yield_p"`
}

func (scHandshake) GenCfg(rng *sim.Rand, tier, prop, variant string) json.RawMessage {
	c := HSCfg{V6: rng.Chance(0.3), Cookie: rng.Chance(0.25), MTU: []int{576, 1280, 1500, 9000}[rng.Intn(4)], Episodes: rng.Range(3, 25)}
	if c.V6 && c.MTU < 1280 {
		c.MTU = 1280
	}
	if rng.Chance(0.4) {
		c.YieldP = []float64{0.05, 0.3}[rng.Intn(2)]
	}
	b, _ := json.Marshal(c)
	return b
}

type hsWorld struct {
	*PeerWorld
	cfg    HSCfg
	lep    tcpip.Endpoint
	nport  uint16
	late   string // a finding that is reported only if the run ends without any other (known finding F25)
	late27 string // likewise (known finding F27)
}

func (w *hsWorld) net() tcpip.NetworkProtocolNumber {
	if w.cfg.V6 {
		return ipv6.ProtocolNumber
	}
	return ipv4.ProtocolNumber
}

func pickISS(r *sim.Rand) uint32 {
	switch r.Pick(4, 2, 2, 1, 1) {
	case 0:
		return uint32(r.Uint64())
	case 1:
		return 1<<31 - uint32(r.Intn(4))
	case 2:
		return 0 - uint32(r.Intn(4))
	case 3:
		return 0
	}
	return 1 << 31
}

// synOptions draws an option block from the grammar; valid reports whether a
// standards-conforming parser must accept it.
func synOptions(r *sim.Rand) (opts []byte, valid bool, ts bool) {
	valid = true
	n := r.Intn(6)
	for i := 0; i < n; i++ {
		switch r.Pick(4, 3, 3, 3, 2, 2, 1, 1) {
		case 0:
			opts = append(opts, codec.OptMSS([]uint16{0, 1, 88, 536, 1460, 9000, 65535}[r.Intn(7)])...)
		case 1:
			opts = append(opts, codec.OptWS([]uint8{0, 1, 7, 14, 15, 255}[r.Intn(6)])...)
		case 2:
			if !ts {
				opts = append(opts, codec.OptTS(uint32(r.Uint64()), 0)...)
				ts = true
			}
		case 3:
			opts = append(opts, codec.OptSACKPerm()...)
		case 4:
			opts = append(opts, 1)
		case 5: // unknown kind, valid length
			l := r.Range(2, 6)
			o := []byte{byte(r.Range(30, 250)), byte(l)}
			for len(o) < l {
				o = append(o, byte(r.Intn(256)))
			}
			opts = append(opts, o...)
		case 6: // invalid length byte
			opts = append(opts, byte(r.Range(2, 250)), byte(r.Intn(2)))
			valid = false
		case 7: // option running past the end of the header
			opts = append(opts, byte(r.Range(2, 250)), 40)
			valid = false
		}
	}
	if r.Chance(0.1) {
		opts = append(opts, 0) // EOL, zero padding follows
		for len(opts)%4 != 0 {
			opts = append(opts, 0)
		}
	}
	opts = codec.PadOpts(opts)
	if len(opts) > 40 {
		opts = opts[:40]
		valid = false
	}
	return
}

func (w *hsWorld) acceptOne() tcpip.Endpoint {
	ep, _, err := w.lep.Accept()
	if err != nil {
		return nil
	}
	return ep
}

// drainAccept closes anything sitting in the accept queue (left-overs of earlier episodes).
func (w *hsWorld) drainAccept() int {
	n := 0
	for {
		ep := w.acceptOne()
		if ep == nil {
			return n
		}
		n++
		ep.Close()
		w.Settle()
	}
}

// drainAcceptFail: nothing may be waiting in the accept queue.
func (w *hsWorld) drainAcceptFail(port uint16, why string) {
	if ep := w.acceptOne(); ep != nil {
		w.Fail("connection-without-handshake", "", "Accept returned a connection for %d->80 after %s", port, why)
		ep.Close()
		w.Settle()
	}
}

func fl(t *codec.TCP) string {
	s := ""
	for i, n := range []string{"F", "S", "R", "P", "A"} {
		if t.Flags&(1<<uint(i)) != 0 {
			s += n
		}
	}
	return fmt.Sprintf("[%s seq=%d ack=%d len=%d]", s, t.Seq, t.Ack, len(t.Payload))
}

// passive episode: SYN to the listener, then a final ACK of some class.
func (w *hsWorld) passive(sub uint64) {
	r := sim.NewRand(sim.Mix(w.seed ^ sub))
	w.nport++
	p := w.NewTCPPeer(w.cfg.V6, 30000+w.nport, 80, pickISS(r))
	p.Mode = r.Intn(3)
	w.drainAccept()
	w.Take()
	opts, valid, ts := synOptions(r)
	twin := !w.cfg.Cookie && r.Chance(0.15)
	if twin {
		// the SYN and an immediate duplicate reach the listener back to back, before the
		// goroutine it starts for the first one has got anywhere
		p.NoWait = true
		p.Send(codec.FlagSYN, p.ISS, 0, 65535, opts, nil)
		p.Send(codec.FlagSYN, p.ISS, 0, 65535, opts, nil)
		p.NoWait = false
		w.Settle()
		w.Probes["duplicate_syn_back_to_back"]++
	} else {
		p.Send(codec.FlagSYN, p.ISS, 0, 65535, opts, nil)
	}
	mine := p.Mine(w.Take())
	var synack *codec.TCP
	for _, t := range mine {
		if t.Flags&(codec.FlagSYN|codec.FlagACK) == codec.FlagSYN|codec.FlagACK && synack == nil {
			synack = t
		} else if twin && synack != nil && t.Flags&(codec.FlagSYN|codec.FlagACK) == codec.FlagSYN|codec.FlagACK && t.Seq == synack.Seq {
			// the duplicate may be answered by the same SYN-ACK again
		} else {
			w.Fail("unexpected-reply", "", "SYN %d->80 drew an unexpected segment %s besides the SYN-ACK", p.PPort, fl(t))
		}
	}
	if synack == nil {
		if valid {
			w.Fail("no-synack", "", "a well-formed SYN (seq=%d, options % x) to the listening port drew no SYN-ACK", p.ISS, opts)
		}
		w.Probes["syn_with_malformed_options"]++
		return
	}
	if synack.Ack != p.ISS+1 {
		w.Fail("synack-wrong-ack", "", "SYN-ACK acknowledges %d, the SYN's sequence number was %d", synack.Ack, p.ISS)
		return
	}
	p.TSOn = ts && synack.HasTS
	p.SndNxt = p.ISS + 1
	iss := synack.Seq
	// optional noise before the final ACK
	switch r.Pick(6, 2, 1) {
	case 1: // SYN retransmission: must not create anything, may draw another SYN-ACK
		p.TSOn = false
		p.Send(codec.FlagSYN, p.ISS, 0, 65535, opts, nil)
		p.TSOn = ts && synack.HasTS
		for _, t := range p.Mine(w.Take()) {
			if t.Flags&codec.FlagSYN != 0 && t.Seq != iss && !w.cfg.Cookie {
				w.Fail("synack-changed-iss", "", "retransmitted SYN drew a SYN-ACK with a different sequence number (%d, was %d)", t.Seq, iss)
			}
		}
		w.Probes["syn_retransmitted"]++
	case 2:
		// (beyond one second the SYN-ACK has been retransmitted, once or twice: what acknowledges it is still ISS+1 only)
		w.Advance(time.Duration(r.Range(1, []int{900, 1500, 3500}[r.Intn(3)])) * time.Millisecond)
		for _, t := range p.Mine(w.Take()) {
			if t.Flags&(codec.FlagSYN|codec.FlagACK) == codec.FlagSYN|codec.FlagACK {
				w.Probes["syn_ack_retransmitted_before_the_final_ack"]++
			}
		}
	}
	if !w.cfg.Cookie && !twin && r.Chance(0.12) {
		// a second SYN with another sequence number while the first handshake is half open: whatever the
		// stack makes of it, a listener never opens a connection of its own (no bare SYN from the listening
		// port), and a SYN-ACK "answering" such a SYN yields no connection
		w.Probes["second_syn_with_another_sequence_number"]++
		p.TSOn = false
		iss2 := p.ISS + uint32(r.Range(1000, 1<<30))
		p.Send(codec.FlagSYN, iss2, 0, 65535, opts, nil)
		var bare *codec.TCP
		for _, t := range p.Mine(w.Take()) {
			if t.Flags&(codec.FlagSYN|codec.FlagACK|codec.FlagRST) == codec.FlagSYN {
				bare = t
			}
		}
		if bare != nil {
			w.Fail("syn-from-listener", "", "after two different SYNs from %d the listening port sent a SYN of its own (seq=%d, no ACK): a passive open turned into an active one", p.PPort, bare.Seq)
			return
		}
		w.Advance(time.Duration(r.Range(0, 1500)) * time.Millisecond)
		for _, t := range p.Mine(w.Take()) {
			if t.Flags&(codec.FlagSYN|codec.FlagACK|codec.FlagRST) == codec.FlagSYN {
				w.Fail("syn-from-listener", "", "after two different SYNs from %d the listening port sent a SYN of its own (seq=%d, no ACK)", p.PPort, t.Seq)
				return
			}
		}
		w.drainAcceptFail(p.PPort, "two different SYNs and no ACK at all")
		return
	}
	if w.acceptOne() != nil {
		w.Fail("accept-before-ack", "", "Accept returned a connection for %d->80 before any ACK of the SYN-ACK was sent", p.PPort)
		return
	}
	if r.Chance(0.15) {
		// another port of the same host presents this handshake's numbers: it never sent a SYN, it gets no connection
		w.nport++
		thief := w.NewTCPPeer(w.cfg.V6, 34000+w.nport, 80, p.ISS)
		thief.Send(codec.FlagACK, p.ISS+1, iss+1, 65535, nil, nil)
		thief.Mine(w.Take())
		w.Probes["final_ack_from_another_port"]++
		if ep := w.acceptOne(); ep != nil {
			w.Fail("connection-without-handshake", "", "port %d sent SYN and got SYN-ACK seq=%d; an ACK acknowledging %d from port %d of the same host - which never took part in a handshake - was handed a connection", p.PPort, iss, iss+1, thief.PPort)
			ep.Close()
			w.Settle()
			return
		}
	}
	// the final ACK
	var delta uint32
	kind := r.Pick(5, 5)
	if kind == 1 {
		if w.cfg.Cookie {
			// classes whose invalidity does not depend on the cookie secret
			switch r.Pick(2, 2, 1) {
			case 0:
				delta = uint32(r.Range(4, 1000))
			case 1:
				delta = 1<<31 + uint32(r.Intn(8))
			default:
				delta = uint32(r.Range(1, 3)) // just above the cookie (known finding F27: decodes as the same cookie with another MSS index)
			}
			if r.Chance(0.5) && delta > 3 {
				delta = -delta
			}
		} else {
			switch r.Pick(3, 2, 2, 3) {
			case 0:
				delta = uint32(r.Range(1, 3))
			case 1:
				delta = uint32(r.Range(4, 100000))
			case 2:
				delta = 1<<31 + uint32(r.Intn(3)) - 1
			default:
				delta = uint32(r.Uint64())
				if delta == 0 {
					delta = 7
				}
			}
			if r.Chance(0.5) {
				delta = -delta
			}
		}
	}
	var data []byte
	if r.Chance(0.25) {
		data = []byte("hello")
	}
	ack := iss + 1 + delta
	flags := uint8(codec.FlagACK)
	if len(data) > 0 {
		flags |= codec.FlagPSH
	}
	if delta != 0 && p.TSOn && r.Chance(0.3) {
		// timestamps were negotiated, the wrong ACK comes without one: wrong is wrong, it is reset all the same
		p.TSOn = false
		w.Probes["wrong_ack_without_timestamp"]++
	}
	p.Send(flags, p.ISS+1, ack, 65535, nil, data)
	replies := p.Mine(w.Take())
	ep := w.acceptOne()
	if delta == 0 {
		w.Probes["correct_handshake"]++
		if ep == nil && len(data) > 0 {
			// a data-bearing third segment may be dropped (the peer retransmits it);
			// the statement only says when a connection may NOT be handed out
			w.Probes["data_bearing_final_ack_not_accepted"]++
			return
		}
		if ep == nil {
			w.Fail("no-connection", "", "complete loss-free handshake %d->80 (SYN seq=%d, SYN-ACK seq=%d, ACK ack=%d, cookie mode %v, data on ACK %d bytes) but Accept returns nothing", p.PPort, p.ISS, iss, ack, w.cfg.Cookie, len(data))
			return
		}
		for _, t := range replies {
			if t.Flags&codec.FlagRST != 0 {
				w.Fail("reset-after-correct-ack", "", "the correct final ACK was answered by a reset %s", fl(t))
			}
		}
		if len(data) > 0 {
			if v, _, err := ep.Read(nil); err == nil && string(v) == string(data) {
				w.Probes["data_on_final_ack_readable"]++
			} else {
				w.Probes["data_on_final_ack_dropped"]++
			}
		}
		ep.Close()
		w.Settle()
		p.Mine(w.Take())
		return
	}
	w.Probes["wrong_final_ack"]++
	if ep != nil && w.cfg.Cookie && delta >= 1 && delta <= 3 {
		// (reported at the end of the run only if nothing else turns up: it would hide the episodes that follow)
		if w.late27 == "" {
			w.late27 = fmt.Sprintf("Accept returned a connection although the final ACK acknowledged %d and the SYN-ACK's sequence number was %d (delta %d, cookie mode: an acknowledgement 1..3 above the cookie decodes as the same cookie with another MSS index)", ack, iss, int32(delta))
		}
		w.Probes["cookie_accepted_with_ack_slightly_too_high"]++
		ep.Close()
		w.Settle()
		p.Mine(w.Take())
		return
	}
	if ep != nil {
		w.Fail("connection-from-wrong-ack", "", "Accept returned a connection although the final ACK acknowledged %d and the SYN-ACK's sequence number was %d (delta %d, cookie mode %v)", ack, iss, int32(delta), w.cfg.Cookie)
		ep.Close()
		w.Settle()
		return
	}
	nrst := 0
	for _, t := range replies {
		if t.Flags&codec.FlagRST != 0 {
			nrst++
			if t.Seq != ack {
				w.Fail("reset-wrong-seq", "", "final ACK acknowledging %d (expected %d) was answered by a reset with sequence number %d, not the acknowledgement number", ack, iss+1, t.Seq)
			}
		} else if t.Flags&codec.FlagSYN == 0 {
			w.Fail("unexpected-reply", "", "wrong final ACK drew %s", fl(t))
		}
	}
	if !w.cfg.Cookie && nrst != 1 {
		w.Fail("wrong-ack-not-reset", "", "final ACK acknowledging %d instead of %d (handshake in progress, not cookie mode) was answered by %d resets, exactly one is required", ack, iss+1, nrst)
	}
	if !w.cfg.Cookie && w.Viol == nil && r.Chance(0.4) {
		// wrong again: the handshake is still in progress, the second wrong ACK is reset like the first
		ack2 := ack + 200 + uint32(r.Intn(1000))
		if ack2 == iss+1 {
			ack2++
		}
		p.Send(codec.FlagACK, p.ISS+1, ack2, 65535, nil, nil)
		n2 := 0
		for _, t := range p.Mine(w.Take()) {
			if t.Flags&codec.FlagRST != 0 && t.Seq == ack2 {
				n2++
			}
		}
		w.Probes["second_wrong_final_ack"]++
		if n2 != 1 {
			w.Fail("wrong-ack-not-reset", "", "second wrong final ACK on the same half-open connection (acknowledging %d instead of %d, not cookie mode) was answered by %d resets with that sequence number, exactly one is required", ack2, iss+1, n2)
		}
	}
	if nrst > 1 {
		w.Fail("wrong-ack-not-reset", "", "wrong final ACK answered by %d resets", nrst)
	}
	// afterwards nothing may appear in the accept queue for this port
	w.Advance(time.Duration(r.Range(0, 2000)) * time.Millisecond)
	if ep := w.acceptOne(); ep != nil {
		w.Fail("connection-from-wrong-ack", "", "a connection for %d->80 appeared after a wrong final ACK", p.PPort)
		ep.Close()
	}
	p.Mine(w.Take())
}

// stray episode: a segment for a port nobody is bound to.
func (w *hsWorld) stray(sub uint64) {
	r := sim.NewRand(sim.Mix(w.seed ^ sub))
	if r.Chance(0.04) {
		// a sweep: a few hundred SYNs for ports nobody listens on, all in one instant - one reset each
		n := r.Range(120, 400)
		w.Take()
		for i := 0; i < n; i++ {
			w.nport++
			q := w.NewTCPPeer(w.cfg.V6, 33000+w.nport, uint16(2000+i%500), uint32(i)*7919+1)
			q.NoWait = true
			q.Send(codec.FlagSYN, q.ISS, 0, 65535, nil, nil)
		}
		w.Settle()
		nrst := 0
		for _, d := range w.Take() {
			if d.TCP != nil && d.TCP.Flags&codec.FlagRST != 0 && d.TCP.SrcPort >= 2000 && d.TCP.SrcPort < 2500 {
				nrst++
			}
		}
		w.Probes["stray_sweeps"]++
		if nrst != n {
			w.Fail("stray-not-reset", "", "%d SYNs for ports without a socket arrived in one instant and drew %d resets: every segment for which no socket exists is answered by exactly one", n, nrst)
		}
		return
	}
	w.nport++
	p := w.NewTCPPeer(w.cfg.V6, 31000+w.nport, uint16(r.Range(2000, 2010)), pickISS(r))
	p.Mode = r.Intn(3)
	w.Take()
	flagSets := []uint8{codec.FlagSYN, codec.FlagACK, codec.FlagSYN | codec.FlagACK, codec.FlagFIN | codec.FlagACK, codec.FlagACK | codec.FlagPSH, codec.FlagFIN, codec.FlagRST, codec.FlagRST | codec.FlagACK, 0, codec.FlagSYN | codec.FlagFIN}
	f := flagSets[r.Intn(len(flagSets))]
	var data []byte
	if f&codec.FlagPSH != 0 || r.Chance(0.2) {
		data = make([]byte, r.Range(1, 1200))
	}
	seq, ack := p.ISS, uint32(r.Uint64())
	if f&codec.FlagACK == 0 && r.Chance(0.5) {
		ack = 0
	}
	// half of the strays carry (well-formed) options: they occupy no sequence space
	var sopts []byte
	if r.Chance(0.5) {
		if f&codec.FlagSYN != 0 {
			if o, valid, _ := synOptions(r); valid {
				sopts = o
			}
		} else {
			switch r.Intn(3) {
			case 0:
				sopts = codec.PadOpts(codec.OptTS(uint32(r.Uint64()), uint32(r.Uint64())))
			case 1:
				sopts = []byte{1, 1, 1, 1}
			case 2:
				sopts = codec.PadOpts(append(codec.OptTS(1, 2), codec.OptSACK([][2]uint32{{10, 20}})...))
			}
		}
		if len(sopts) > 0 {
			w.Probes["stray_with_options"]++
		}
	}
	p.Send(f, seq, ack, 1024, sopts, data)
	replies := p.Mine(w.Take())
	if f&codec.FlagRST != 0 {
		w.Probes["stray_reset"]++
		if len(replies) != 0 {
			w.Fail("reset-answered", "", "a reset for port %d (nobody bound) was answered by %s", p.SPort, fl(replies[0]))
		}
		return
	}
	w.Probes["stray_segment"]++
	if len(replies) != 1 {
		w.Fail("stray-not-reset", "", "segment flags=0x%02x seq=%d len=%d for port %d (no socket) was answered by %d segments, exactly one reset is required", f, seq, len(data), p.SPort, len(replies))
		return
	}
	t := replies[0]
	seglen := uint32(len(data))
	if f&codec.FlagSYN != 0 {
		seglen++
	}
	if f&codec.FlagFIN != 0 {
		seglen++
	}
	wantSeq := uint32(0)
	if f&codec.FlagACK != 0 {
		wantSeq = ack
	}
	switch {
	case t.Flags&codec.FlagRST == 0:
		w.Fail("stray-not-reset", "", "segment for port %d (no socket) was answered by %s, not a reset", p.SPort, fl(t))
	case t.Flags&codec.FlagACK == 0 || t.Ack != seq+seglen:
		w.Fail("reset-does-not-ack", "", "reset for a stray segment (seq=%d, length %d incl. SYN/FIN) acknowledges %d (ACK flag %v); it must acknowledge %d", seq, seglen, t.Ack, t.Flags&codec.FlagACK != 0, seq+seglen)
	case t.Seq != wantSeq:
		w.Fail("reset-wrong-seq", "", "reset for a stray segment (ACK flag %v, ack=%d) has sequence number %d, want %d", f&codec.FlagACK != 0, ack, t.Seq, wantSeq)
	case len(t.Payload) != 0:
		w.Fail("unexpected-reply", "", "reset carries %d bytes of data", len(t.Payload))
	}
}

// active episode: the stack connects to the peer.
func (w *hsWorld) active(sub uint64) {
	r := sim.NewRand(sim.Mix(w.seed ^ sub))
	w.nport++
	sport := 40000 + w.nport
	p := w.NewTCPPeer(w.cfg.V6, 9000, sport, pickISS(r))
	p.Mode = r.Intn(3)
	w.Take()
	wq := &waiter.Queue{}
	ep, err := w.S.S.NewEndpoint(tcp.ProtocolNumber, w.net(), wq)
	must(err, "NewEndpoint")
	must(ep.Bind(tcpip.FullAddress{Port: sport}, nil), "Bind")
	var own uint32
	pin := r.Chance(0.6)
	if pin {
		own = pickISS(r)
		rand.VerifNext([]byte{byte(own), byte(own >> 8), byte(own >> 16), byte(own >> 24)})
	}
	if e := ep.Connect(tcpip.FullAddress{Addr: p.PAddr, Port: 9000}); e != tcpip.ErrConnectStarted {
		w.Fail("connect-failed", "", "Connect returned %v", e)
		return
	}
	w.Settle()
	defer func() {
		ep.Close()
		w.Settle()
		w.Advance(4 * time.Second)
		p.Mine(w.Take())
	}()
	mine := p.Mine(w.Take())
	if len(mine) != 1 || mine[0].Flags != codec.FlagSYN {
		w.Fail("no-syn", "", "Connect emitted %d segments, want one SYN", len(mine))
		return
	}
	syn := mine[0]
	if pin && syn.Seq != own {
		w.Probes["iss_pin_missed"]++
	}
	iss := syn.Seq
	connected := func() bool {
		_, err := ep.GetRemoteAddress()
		return err == nil
	}
	var myOpts []byte
	if syn.HasTS && r.Chance(0.7) {
		myOpts = codec.PadOpts(codec.OptTS(777, syn.TSVal))
	}
	if r.Chance(0.5) {
		myOpts = append(myOpts, codec.PadOpts(codec.OptMSS(uint16(r.Range(88, 1460))))...)
	}
	if r.Chance(0.25) {
		// the peer is slow: the SYN has gone out two or three times by the time it answers
		w.Advance(time.Duration(r.Range(1100, 3500)) * time.Millisecond)
		for _, t := range p.Mine(w.Take()) {
			if t.Flags == codec.FlagSYN && t.Seq != iss {
				w.Fail("synack-changed-iss", "", "the retransmitted SYN carries sequence number %d, the first one %d", t.Seq, iss)
			}
		}
		w.Probes["syn_retransmitted_before_the_answer"]++
	}
	switch r.Pick(4, 4, 2, 2, 2) {
	case 0: // correct SYN-ACK
		w.Probes["active_correct"]++
		p.Send(codec.FlagSYN|codec.FlagACK, p.ISS, iss+1, 65535, myOpts, nil)
		rep := p.Mine(w.Take())
		if !connected() {
			w.Fail("active-open-not-completed", "", "SYN-ACK acknowledging exactly the SYN (iss=%d) did not complete the active open", iss)
			return
		}
		if len(rep) != 1 || rep[0].Flags&(codec.FlagACK|codec.FlagSYN|codec.FlagRST) != codec.FlagACK || rep[0].Ack != p.ISS+1 || rep[0].Seq != iss+1 {
			w.Fail("bad-final-ack", "", "active open answered the SYN-ACK with %d segments (want one ACK seq=%d ack=%d)", len(rep), iss+1, p.ISS+1)
		}
	case 1: // SYN-ACK acknowledging something else
		w.Probes["active_wrong_ack"]++
		d := uint32(r.Range(1, 5))
		switch r.Pick(2, 1, 1) {
		case 1:
			d = 1<<31 + uint32(r.Intn(3)) - 1
		case 2:
			d = uint32(r.Uint64()) | 1
		}
		if r.Chance(0.5) {
			d = -d
		}
		if d == 0 {
			d = 1
		}
		// the wrong acknowledgement comes on a SYN-ACK or on a segment without SYN (bare ACK, data, FIN):
		// while the SYN is outstanding every one of them is a handshake segment acknowledging something else
		what := "SYN-ACK"
		switch r.Pick(5, 2, 2, 2) {
		case 0:
			p.Send(codec.FlagSYN|codec.FlagACK, p.ISS, iss+1+d, 65535, myOpts, nil)
		case 1:
			what = "bare ACK"
			p.Send(codec.FlagACK, p.ISS+1, iss+1+d, 65535, nil, nil)
		case 2:
			what = "data segment"
			p.Send(codec.FlagACK|codec.FlagPSH, p.ISS+1, iss+1+d, 65535, nil, []byte("early"))
		default:
			what = "FIN-ACK"
			p.Send(codec.FlagACK|codec.FlagFIN, p.ISS+1, iss+1+d, 65535, nil, nil)
		}
		if what != "SYN-ACK" {
			w.Probes["active_wrong_ack_without_syn"]++
		}
		rep := p.Mine(w.Take())
		if connected() {
			w.Fail("active-open-on-wrong-ack", "", "active open (iss=%d) completed on a %s acknowledging %d", iss, what, iss+1+d)
			return
		}
		nrst := 0
		for _, t := range rep {
			if t.Flags&codec.FlagRST != 0 {
				nrst++
				if t.Seq != iss+1+d {
					w.Fail("reset-wrong-seq", "", "%s acknowledging %d answered by reset with sequence number %d", what, iss+1+d, t.Seq)
				}
			}
		}
		if nrst != 1 {
			w.Fail("wrong-ack-not-reset", "", "%s acknowledging %d instead of %d (SYN outstanding) was answered by %d resets", what, iss+1+d, iss+1, nrst)
		}
	case 2: // reset acknowledging the SYN: connection refused, never answered
		w.Probes["active_refused"]++
		p.Send(codec.FlagRST|codec.FlagACK, 0, iss+1, 0, nil, nil)
		rep := p.Mine(w.Take())
		if len(rep) != 0 {
			w.Fail("reset-answered", "", "a reset was answered by %s", fl(rep[0]))
		}
		if connected() {
			w.Fail("active-open-on-wrong-ack", "", "active open completed on a reset")
		}
		if e := ep.GetSockOpt(tcpip.ErrorOption{}); e != tcpip.ErrConnectionRefused {
			w.Fail("refusal-not-reported", "", "reset acknowledging the SYN: socket error is %v, want connection refused", e)
		}
	case 3: // reset acknowledging something else: ignored, never answered
		p.Send(codec.FlagRST|codec.FlagACK, 0, iss+1+uint32(r.Range(1, 1000)), 0, nil, nil)
		rep := p.Mine(w.Take())
		if len(rep) != 0 {
			w.Fail("reset-answered", "", "a reset was answered by %s", fl(rep[0]))
		}
		if e := ep.GetSockOpt(tcpip.ErrorOption{}); e == tcpip.ErrConnectionRefused {
			w.Fail("bad-reset-accepted", "", "a reset not acknowledging the SYN aborted the active open")
		}
		// and the handshake can still complete
		p.Send(codec.FlagSYN|codec.FlagACK, p.ISS, iss+1, 65535, myOpts, nil)
		p.Mine(w.Take())
		if !connected() {
			w.Fail("active-open-not-completed", "", "after an ignored reset a correct SYN-ACK did not complete the active open")
		}
	case 4: // simultaneous open
		w.Probes["simultaneous_open"]++
		p.Send(codec.FlagSYN, p.ISS, 0, 65535, myOpts, nil)
		rep := p.Mine(w.Take())
		if connected() {
			w.Fail("active-open-on-wrong-ack", "", "active open completed on a bare SYN")
			return
		}
		ok := false
		for _, t := range rep {
			if t.Flags&(codec.FlagSYN|codec.FlagACK) == codec.FlagSYN|codec.FlagACK && t.Ack == p.ISS+1 && t.Seq == iss {
				ok = true
			}
		}
		if !ok {
			w.Fail("no-synack", "", "simultaneous open: the peer's SYN (seq=%d) was not answered by a SYN-ACK (seq=%d ack=%d)", p.ISS, iss, p.ISS+1)
			return
		}
		p.TSOn = syn.HasTS && len(myOpts) > 0 && myOpts[0] == 8
		p.Send(codec.FlagACK, p.ISS+1, iss+1, 65535, nil, nil)
		p.Mine(w.Take())
		if !connected() {
			w.Fail("active-open-not-completed", "", "simultaneous open: ACK of the SYN-ACK did not complete the connection")
		}
	}
}

// listenerNoise: segments that must never create a connection.
func (w *hsWorld) noise(sub uint64) {
	r := sim.NewRand(sim.Mix(w.seed ^ sub))
	w.nport++
	p := w.NewTCPPeer(w.cfg.V6, 32000+w.nport, 80, pickISS(r))
	w.drainAccept()
	w.Take()
	isReset := false
	var sent []uint32 // acknowledgement number and flags of an ACK-bearing segment
	switch r.Intn(6) {
	case 4: // a bare reset for the listener's port
		p.Send(codec.FlagRST, p.ISS, 0, 0, nil, nil)
		isReset = true
	case 5: // a reset that also acknowledges something (a client aborting after the SYN-ACK), or that carries SYN as well
		fl := uint8(codec.FlagRST | codec.FlagACK)
		switch r.Intn(3) {
		case 1:
			fl = codec.FlagRST | codec.FlagSYN
		case 2:
			fl = codec.FlagRST | codec.FlagSYN | codec.FlagACK
		}
		p.Send(fl, p.ISS, uint32(r.Uint64()), 0, nil, nil)
		isReset = true
	case 0:
		a := uint32(r.Range(4, 1000)) * uint32(r.Range(1, 1000))
		sent = []uint32{a, codec.FlagACK}
		p.Send(codec.FlagACK, p.ISS, a, 1024, nil, nil)
	case 1:
		a := uint32(r.Uint64())
		sent = []uint32{a, codec.FlagSYN | codec.FlagACK}
		p.Send(codec.FlagSYN|codec.FlagACK, p.ISS, a, 1024, nil, nil)
	case 2:
		sent = []uint32{12345, codec.FlagFIN | codec.FlagACK}
		p.Send(codec.FlagFIN|codec.FlagACK, p.ISS, 12345, 1024, nil, nil)
	case 3:
		sent = []uint32{99999, codec.FlagACK | codec.FlagPSH}
		p.Send(codec.FlagACK|codec.FlagPSH, p.ISS, 99999, 1024, nil, []byte("data"))
	}
	w.Probes["listener_noise"]++
	replies := p.Mine(w.Take())
	for _, t := range replies {
		if t.Flags&codec.FlagRST == 0 {
			w.Fail("unexpected-reply", "", "a segment that is no SYN (flags as sent: %v) arriving at the listening port from port %d drew %s: only a SYN opens a handshake", sent, p.PPort, fl(t))
		}
	}
	if isReset {
		w.Probes["reset_at_listener"]++
		if len(replies) > 0 {
			w.Fail("reset-answered", "", "a reset sent to the listening port was answered by %s", fl(replies[0]))
		}
	} else if !w.cfg.Cookie && len(sent) == 2 {
		// an ACK-bearing segment at a listening port, no handshake in progress for this peer: it acknowledges
		// something the stack never sent - one reset whose sequence number is that acknowledgement number
		nrst := 0
		for _, t := range replies {
			if t.Flags&codec.FlagRST != 0 && t.Seq == sent[0] {
				nrst++
			}
		}
		if nrst != 1 && w.late == "" {
			w.late = fmt.Sprintf("segment with flags %#x acknowledging %d sent to the listening port from port %d (no handshake in progress for this peer, listener not in SYN-cookie mode) drew %d resets with that sequence number, exactly one is required", sent[1], sent[0], p.PPort, nrst)
		}
		w.Probes["ack_bearing_segment_at_listener"]++
	}
	if ep := w.acceptOne(); ep != nil {
		w.Fail("connection-without-handshake", "", "a segment that is not part of any handshake made the listener hand out a connection")
		ep.Close()
		w.Settle()
	}
}

func (w *hsWorld) apply(s Step) {
	switch s.Op {
	case "ep":
		switch s.A {
		case 0:
			w.passive(uint64(s.B))
		case 1:
			w.stray(uint64(s.B))
		case 2:
			w.active(uint64(s.B))
		case 3:
			w.noise(uint64(s.B))
		}
	case "adv":
		w.Advance(time.Duration(s.D))
		w.Take()
	}
}

func (scHandshake) Run(t *testing.T, prop string, seed uint64, cfgRaw json.RawMessage, steps []Step, tape []byte, trace bool) *RunOut {
	var cfg HSCfg
	json.Unmarshal(cfgRaw, &cfg)
	o := &RunOut{Cfg: cfgRaw}
	saved := tcp.SynRcvdCountThreshold
	defer func() { tcp.SynRcvdCountThreshold = saved }()
	synRcvd0 := tcp.VerifSynRcvdCount()
	bubble(t, func() {
		w := &hsWorld{PeerWorld: NewPeerWorld(seed, uint32(cfg.MTU), NodeOpts{SACK: true}), cfg: cfg}
		defer w.Close()
		w.TraceOn = trace
		w.YieldP = cfg.YieldP
		if cfg.Cookie {
			tcp.SynRcvdCountThreshold = 0
		}
		lwq := &waiter.Queue{}
		ep, err := w.S.S.NewEndpoint(tcp.ProtocolNumber, w.net(), lwq)
		must(err, "listener")
		must(ep.Bind(tcpip.FullAddress{Port: 80}, nil), "bind")
		must(ep.Listen(16), "listen")
		w.lep = ep
		w.Settle()
		if steps == nil {
			for i := 0; i < cfg.Episodes && w.Viol == nil; i++ {
				s := Step{Op: "ep", A: w.Rng.Pick(5, 3, 4, 1), B: w.Rng.Intn(1 << 30)}
				if w.Rng.Chance(0.1) {
					s = Step{Op: "adv", D: int64(time.Duration(w.Rng.Range(1, 70000)) * time.Millisecond)}
				}
				w.Steps = append(w.Steps, s)
				w.apply(s)
				w.NSteps++
			}
		} else {
			w.Replay, w.Tape = true, tape
			for _, s := range steps {
				w.apply(s)
				w.NSteps++
				if w.Viol != nil {
					break
				}
			}
			w.Steps = steps
		}
		w.OnEmit = nil
		w.lep.Close()
		// let every half-open handshake time out (63 s) so that the process-global
		// SYN-RCVD counter is back at zero for the next run
		w.Advance(70 * time.Second)
		if n := tcp.VerifSynRcvdCount(); n != synRcvd0 && w.Viol == nil {
			w.Probes["synrcvd_count_leaked"] += int64(n - synRcvd0)
			w.Fail("half-open-slots-leaked", "", "%d handshake slot(s) are still counted as in progress although every handshake of the run ended more than 63 s ago: after enough of them listeners answer in SYN-cookie mode - and drop wrong ACKs silently - without any flood", n-synRcvd0)
		}
		if w.Viol == nil && w.late27 != "" {
			w.Fail("connection-from-wrong-ack", "", "%s", w.late27)
		}
		if w.Viol == nil && w.late != "" {
			w.Fail("ack-at-listener-not-reset", "", "%s", w.late)
		}
		finish(w.World, o)
		if w.Replay {
			o.Tape = tape
		}
		o.Nontrivial = w.Probes["correct_handshake"]+w.Probes["active_correct"] > 0 && w.Probes["wrong_final_ack"]+w.Probes["active_wrong_ack"]+w.Probes["stray_segment"] > 0
	})
	return o
}

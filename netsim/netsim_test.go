package netsim

import "testing"

// TestWorker is the entry point the runner invokes (see sim.Env).
func TestWorker(t *testing.T) { Worker(t) }

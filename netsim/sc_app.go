package netsim

import (
	"bytes"
	"crypto/sha1"
	"encoding/base64"
	"encoding/binary"
	"encoding/json"
	"fmt"
	"sort"
	"strings"
	"sync"
	"testing"
	"time"

	"verif/sim"

	"github.com/brewlin/net-protocol/pkg/rand"
	"github.com/brewlin/net-protocol/pkg/waiter"
	tcpip "github.com/brewlin/net-protocol/protocol"
	"github.com/brewlin/net-protocol/protocol/application/http"
	"github.com/brewlin/net-protocol/protocol/application/websocket"
	"github.com/brewlin/net-protocol/protocol/link/loopback"
	"github.com/brewlin/net-protocol/protocol/network/ipv4"
	"github.com/brewlin/net-protocol/protocol/transport/tcp"
	"github.com/brewlin/net-protocol/stack"
)

// scApp: C20 - HTTP requests and WebSocket messages survive the round trip
// through the stack. The bundled server and clients run as goroutines inside
// the bubble over one real stack whose NIC is the repository's loopback link
// (inline delivery, 64 KB MTU) or a hairpin link through the simulated wire
// (MTU 576/1500, FIFO). No wire faults, no yield perturbation: the property
// quantifies over inputs, histories and configurations.
type scApp struct{}

func init() {
	scenarios["app"] = scApp{}
	propScenario["C20"] = "app"
}

type AppCfg struct {
	Hairpin bool `json:"hairpin"`
	MTU     int  `json:"mtu"`
	NReq    int  `json:"http_requests"`
	NMsg    int  `json:"ws_messages"`
	RawWS   bool `json:"raw_masked_ws_client"`
	Burst   bool `json:"bursts"`                                        // several messages in one direction before the other side answers
	Async   bool `json:"server_sends_from_another_goroutine,omitempty"` // the server's replies are sent by a second goroutine while its handler is back in ReadData
}

func (scApp) GenCfg(rng *sim.Rand, tier, prop, variant string) json.RawMessage {
	c := AppCfg{Hairpin: rng.Chance(0.5), MTU: []int{576, 1500, 576, 1500, 65536, 70000}[rng.Intn(6)], NReq: rng.Range(1, 6), NMsg: rng.Range(1, 8), RawWS: rng.Chance(0.5), Burst: rng.Chance(0.5)}
	c.Async = rng.Chance(0.3)
	b, _ := json.Marshal(c)
	return b
}

type appReq struct {
	method, path string
	headers      map[string]string
	body, resp   string
	registered   bool
}

type appWorld struct {
	*World
	cfg     AppCfg
	s       *stack.Stack
	cur     *appReq // request the client is performing
	handled int     // handler invocations for cur
	wsIn    [][]byte
	wsReply func(msg []byte) [][]byte
	done    bool
	seed    uint64
	names   map[string]bool // every header name some request of this session carried
}

var (
	appOnce  sync.Once
	appCur   *appWorld
	appPort  = "9000"
	appPaths = []string{"/", "/a", "/b/c", "/echo"}
)

// handlers are registered once per worker process (the mux is a process global
// that panics on re-registration) and forward to the world of the current run.
func appRegister(srv *http.Server) {
	appOnce.Do(func() {
		for _, p := range appPaths {
			p := p
			srv.HandleFunc(p, func(r *http.Request, w *http.Response) {
				if aw := appCur; aw != nil {
					aw.onRequest(p, r, w)
				}
			})
		}
		srv.HandleFunc("/ws", func(r *http.Request, w *http.Response) {
			if aw := appCur; aw != nil {
				aw.onWS(r, w)
			}
		})
	})
}

func (w *appWorld) onRequest(path string, r *http.Request, resp *http.Response) {
	q := w.cur
	w.handled++
	if q == nil {
		w.Fail("handler-without-request", "", "handler for %s ran although the client sent nothing", path)
		return
	}
	if !q.registered || q.path != path {
		w.Fail("wrong-handler", "", "request for path %q invoked the handler registered for %q", q.path, path)
	}
	if r.GetMethod() != q.method {
		w.Fail("method-altered", "", "client sent method %q, the handler saw %q", q.method, r.GetMethod())
	}
	for k, v := range q.headers {
		if got := r.GetHeader(k); got != v {
			w.Fail("header-altered", "", "client sent header %q: %q, the handler saw %q", k, v, got)
		}
	}
	// ... and no header of an earlier request of the session that this one did not carry
	var earlier []string
	for k := range w.names {
		if _, sent := q.headers[k]; !sent {
			earlier = append(earlier, k)
		}
	}
	sort.Strings(earlier)
	for _, k := range earlier {
		if got := r.GetHeader(k); got != "" {
			w.Fail("header-invented", "", "the handler saw header %q: %q which this request did not carry (an earlier request of the session did)", k, got)
		}
	}
	if got := r.GetBody(); got != q.body {
		w.Fail("body-altered", "request", "client sent a %d-byte body %q, the handler saw %d bytes %q", len(q.body), clip(q.body), len(got), clip(got))
	}
	resp.End(q.resp)
}

func clip(s string) string {
	if len(s) > 40 {
		return s[:40] + "..."
	}
	return s
}

func (w *appWorld) onWS(r *http.Request, resp *http.Response) {
	c, err := websocket.Upgrade(r, resp)
	if err != nil {
		w.Fail("upgrade-failed", "", "server-side Upgrade failed: %v", err)
		return
	}
	defer c.Close()
	var out chan [][]byte
	if w.cfg.Async {
		// one sender goroutine per connection: replies leave while the handler is reading again
		out = make(chan [][]byte, 64)
		defer close(out)
		go func() {
			for batch := range out {
				for _, rep := range batch {
					c.SendData(rep)
					w.Probes["ws_server_sends_while_handler_reads"]++
				}
			}
		}()
	}
	for {
		msg, err := c.ReadData()
		if err != nil {
			return
		}
		w.wsIn = append(w.wsIn, msg)
		if out != nil {
			out <- w.wsReply(msg)
			continue
		}
		for _, rep := range w.wsReply(msg) {
			c.SendData(rep)
		}
	}
}

// appPercent sprinkles format verbs over a text: bodies are data, not format strings.
func appPercent(r *sim.Rand, t string) string {
	b := []byte(t)
	for k := r.Range(1, 4); k > 0 && len(b) > 0; k-- {
		i := r.Intn(len(b))
		v := []string{"%", "%d", "%s", "%%", "100%", "%v%x", "%!"}[r.Intn(7)]
		b = append(b[:i], append([]byte(v), b[i:]...)...)
	}
	return string(b)
}

func appText(seed uint64, id, n int) string {
	const alpha = "abcdefghijklmnopqrstuvwxyzABCDEFGHIJKLMNOPQRSTUVWXYZ0123456789-_.~ "
	b := make([]byte, n)
	for i := range b {
		b[i] = alpha[sim.Mix(seed^uint64(id)<<32^uint64(i))%uint64(len(alpha))]
	}
	return string(b)
}

func wsLen(r *sim.Rand, big bool) int {
	lens := []int{0, 1, 2, 124, 125, 126, 127, 128, 1000, 65534, 65535, 65536, 65537}
	if big && r.Chance(0.2) {
		return r.Range(70000, 300000)
	}
	if r.Chance(0.3) {
		return r.Intn(3000)
	}
	return lens[r.Intn(len(lens))]
}

// client is the body of the client goroutine: HTTP requests, then WebSocket sessions.
func (w *appWorld) client(r *sim.Rand) {
	defer func() { w.done = true }()
	url := "http://192.168.1.1:" + appPort
	for i := 0; i < w.cfg.NReq && w.Viol == nil; i++ {
		q := &appReq{method: []string{"GET", "HEAD", "POST", "PUT"}[r.Intn(4)], headers: map[string]string{}}
		if r.Chance(0.8) {
			q.path, q.registered = appPaths[r.Intn(len(appPaths))], true
		} else {
			q.path = []string{"/nope", "/a/", "/A", "/b", "/echo2"}[r.Intn(5)]
		}
		for k := r.Intn(4); k > 0; k-- {
			v := strings.TrimSpace("v" + appText(w.seed, i*100+k, r.Range(0, 30)))
			if r.Chance(0.3) {
				// values may themselves contain the separator: the value runs to the end of the line
				v = []string{"step: one", "{\"a\": 1, \"b\": 2}", "10:30: late", "a:b", "x: y: z"}[r.Intn(5)] + v
				w.Probes["header_values_with_separator"]++
			}
			q.headers["X-H"+appText(w.seed, i*10+k, r.Range(1, 8))[:1]+fmt.Sprint(k)] = v
		}
		if q.method == "POST" || q.method == "PUT" || r.Chance(0.2) {
			q.body = appText(w.seed, 7000+i, []int{0, 1, 10, 100, 300}[r.Intn(5)])
			if r.Chance(0.15) {
				// a body may itself begin with line breaks: only the one blank line after the headers is a separator
				q.body = []string{"\n", "\r", "\r\n", "\r\n\r\n", "\n\n"}[r.Intn(5)] + "x" + q.body
				w.Probes["bodies_starting_with_line_breaks"]++
			}
		}
		q.resp = appText(w.seed, 9000+i, r.Range(1, 300))
		if r.Chance(0.25) {
			q.resp = appPercent(r, q.resp)
			if q.body != "" && !strings.HasPrefix(q.body, "\n") && !strings.HasPrefix(q.body, "\r") {
				q.body = appPercent(r, q.body)
			}
			w.Probes["bodies_with_percent_signs"]++
		}
		for k := range q.headers {
			w.names[k] = true
		}
		w.cur, w.handled = q, 0
		cli, err := http.NewClient(url + q.path)
		if err != nil {
			w.Fail("client-failed", "", "NewClient(%s): %v", q.path, err)
			return
		}
		cli.SetMethod(q.method)
		cli.SetHeaders(q.headers)
		cli.SetData(q.body)
		got, err := cli.GetResult()
		w.Log.Str(q.method + q.path)
		w.Probes["http_requests"]++
		if err != nil {
			w.Fail("client-failed", "", "%s %s: %v", q.method, q.path, err)
			return
		}
		switch {
		case q.registered && w.handled != 1:
			w.Fail("handler-not-invoked", "", "%s %s (registered path) invoked its handler %d times", q.method, q.path, w.handled)
		case !q.registered && w.handled != 0:
			w.Fail("handler-for-unregistered-path", "", "%s %s: nobody registered this path, yet a handler ran", q.method, q.path)
		case q.registered && got != q.resp:
			w.Fail("body-altered", "response", "handler for %s produced a %d-byte body %q, the client received %d bytes %q", q.path, len(q.resp), clip(q.resp), len(got), clip(got))
		}
		if !q.registered {
			w.Probes["unregistered_path_requests"]++
		}
		w.cur = nil
	}
	if w.Viol != nil {
		return
	}
	// WebSocket, bundled client <-> bundled server (unmasked frames both ways)
	w.wsReply = func(m []byte) [][]byte {
		first := make([]byte, len(m))
		for i := range m {
			first[i] = m[len(m)-1-i] // reversed: both directions carry distinguishable bytes
		}
		out := [][]byte{first}
		if w.cfg.Burst {
			// the server answers some messages with a burst: further, mostly shorter, messages right behind the first
			h := sim.Mix(w.seed ^ uint64(len(m))*0x9e3779b97f4a7c15)
			for j := 0; j < int(h%3); j++ {
				n := 1 + int((h>>(8*uint(j+1)))%200)
				if (h>>40)&3 == 0 {
					n = len(m) / 2
				}
				out = append(out, []byte(appText(w.seed, 50000+j+len(m)%89, n)))
			}
		}
		return out
	}
	ws, err := websocket.NewClient(url + "/ws")
	if err != nil {
		w.Fail("client-failed", "", "websocket.NewClient: %v", err)
		return
	}
	if err := ws.Upgrade(); err != nil {
		w.Fail("upgrade-failed", "", "client-side Upgrade: %v", err)
		return
	}
	for i := 0; i < w.cfg.NMsg && w.Viol == nil; {
		// one message, or a burst of up to four small ones sent before any reply is read
		k := 1
		if w.cfg.Burst && r.Chance(0.4) {
			k = r.Range(2, 4)
			w.Probes["ws_client_bursts"]++
		}
		var msgs []string
		before := len(w.wsIn)
		for j := 0; j < k; j++ {
			n := wsLen(r, true)
			if k > 1 && n > 4000 {
				n = r.Intn(4000) // a burst must fit the socket buffers: nobody is reading yet
			}
			msg := appText(w.seed, 20000+i, n)
			i++
			msgs = append(msgs, msg)
			if err := ws.Push(msg); err != nil {
				w.Fail("client-failed", "", "ws Push: %v", err)
				return
			}
			w.Log.U64(uint64(n))
			w.Probes["ws_messages_bundled_client"]++
			wsClass(w.World, n)
		}
		for j, msg := range msgs {
			n := len(msg)
			for ri, want := range w.wsReply([]byte(msg)) {
				got, err := ws.Recv()
				if err != nil {
					w.Fail("ws-message-lost", "", "message %d (%d bytes), reply %d: Recv failed: %v", j, n, ri, err)
					return
				}
				if ri > 0 {
					w.Probes["ws_server_burst_messages"]++
				}
				if got != string(want) {
					w.Fail("ws-message-altered", "to-client", "server sent a text message of %d bytes (reply %d to a %d-byte message), the client received %d bytes (first difference at %d)", len(want), ri, n, len(got), firstDiff(got, string(want)))
					return
				}
			}
			if len(w.wsIn) <= before+j || string(w.wsIn[before+j]) != msg {
				var l int
				if len(w.wsIn) > before+j {
					l = len(w.wsIn[before+j])
				}
				w.Fail("ws-message-altered", "to-server", "text message of %d bytes (number %d of a burst of %d) reached the server as %d bytes", n, j, k, l)
				return
			}
		}
		if len(w.wsIn) != before+k {
			w.Fail("ws-message-altered", "to-server", "%d messages sent, the server received %d", k, len(w.wsIn)-before)
			return
		}
	}
	ws.Close()
	if w.cfg.RawWS && w.Viol == nil {
		w.rawWS(r)
	}
}

func firstDiff(a, b string) int {
	for i := 0; i < len(a) && i < len(b); i++ {
		if a[i] != b[i] {
			return i
		}
	}
	if len(a) < len(b) {
		return len(a)
	}
	return len(b)
}

func wsClass(w *World, n int) {
	switch {
	case n <= 125:
		w.Probes["ws_len_7bit"]++
	case n <= 65535:
		w.Probes["ws_len_16bit"]++
	default:
		w.Probes["ws_len_64bit"]++
	}
}

// rawConn is a blocking byte stream over a TCP endpoint of the stack.
type rawConn struct {
	ep  tcpip.Endpoint
	ch  chan struct{}
	buf []byte
}

func (c *rawConn) wait() { <-c.ch }

func (c *rawConn) write(b []byte) bool {
	for len(b) > 0 {
		n, _, err := c.ep.Write(tcpip.SlicePayload(append([]byte(nil), b...)), tcpip.WriteOptions{})
		b = b[n:]
		if err == tcpip.ErrWouldBlock {
			c.wait()
			continue
		}
		if err != nil {
			return false
		}
	}
	return true
}

func (c *rawConn) readN(n int) ([]byte, bool) {
	for len(c.buf) < n {
		v, _, err := c.ep.Read(nil)
		if err == tcpip.ErrWouldBlock {
			c.wait()
			continue
		}
		if err != nil {
			return nil, false
		}
		c.buf = append(c.buf, v...)
	}
	out := c.buf[:n]
	c.buf = c.buf[n:]
	return out, true
}

func (c *rawConn) readUntil(sep string) (string, bool) {
	for {
		if i := bytes.Index(c.buf, []byte(sep)); i >= 0 {
			out := string(c.buf[:i+len(sep)])
			c.buf = c.buf[i+len(sep):]
			return out, true
		}
		v, _, err := c.ep.Read(nil)
		if err == tcpip.ErrWouldBlock {
			c.wait()
			continue
		}
		if err != nil {
			return "", false
		}
		c.buf = append(c.buf, v...)
	}
}

// rawWS speaks RFC 6455 with the bundled server through a harness-side codec:
// masked client frames with random keys, independent accept-key computation.
func (w *appWorld) rawWS(r *sim.Rand) {
	wq := &waiter.Queue{}
	ep, err := w.s.NewEndpoint(tcp.ProtocolNumber, ipv4.ProtocolNumber, wq)
	if err != nil {
		return
	}
	e, ch := waiter.NewChannelEntry(nil)
	wq.EventRegister(&e, waiter.EventIn|waiter.EventOut)
	defer wq.EventUnregister(&e)
	c := &rawConn{ep: ep, ch: ch}
	if er := ep.Connect(tcpip.FullAddress{Addr: "\xc0\xa8\x01\x01", Port: 9000}); er == tcpip.ErrConnectStarted {
		c.wait()
	}
	defer ep.Close()
	// (a key is the base64 form of a nonce; 16 bytes is what RFC 6455 clients send, the accept value is defined for any key)
	nonce := 16
	if r.Chance(0.3) {
		nonce = []int{6, 20, 32, 52}[r.Intn(4)]
		w.Probes["ws_keys_of_unusual_length"]++
	}
	key := base64.StdEncoding.EncodeToString([]byte(appText(w.seed, 31337, nonce)))
	req := "GET /ws HTTP/1.1\r\nHost: 192.168.1.1:9000\r\nUpgrade: websocket\r\nConnection: Upgrade\r\nSec-WebSocket-Key: " + key + "\r\nSec-WebSocket-Version: 13\r\n\r\n"
	if !c.write([]byte(req)) {
		w.Fail("client-failed", "", "raw websocket client: cannot write the upgrade request")
		return
	}
	resp, ok := c.readUntil("\r\n\r\n")
	if !ok {
		w.Fail("upgrade-failed", "", "raw websocket client: no upgrade response")
		return
	}
	sum := sha1.Sum([]byte(key + "258EAFA5-E914-47DA-95CA-C5AB0DC85B11"))
	want := base64.StdEncoding.EncodeToString(sum[:])
	if !strings.HasPrefix(resp, "HTTP/1.1 101") || !strings.Contains(resp, "Sec-WebSocket-Accept: "+want+"\r\n") {
		w.Fail("wrong-accept-key", "", "upgrade response does not carry Sec-WebSocket-Accept %q for key %q: %q", want, key, clip(resp))
		return
	}
	w.Probes["raw_upgrades"]++
	for i := 0; i < w.cfg.NMsg && w.Viol == nil; i++ {
		n := wsLen(r, true)
		msg := []byte(appText(w.seed, 40000+i, n))
		var mk [4]byte
		binary.BigEndian.PutUint32(mk[:], uint32(r.Uint64()))
		switch r.Intn(4) {
		case 0:
			mk = [4]byte{}
		case 1:
			mk = [4]byte{0xff, 0xff, 0xff, 0xff}
		}
		frame := []byte{0x81}
		maskBit := byte(0x80)
		if r.Chance(0.3) {
			maskBit = 0 // an unmasked frame between masked ones
			w.Probes["ws_unmasked_raw_frames"]++
		}
		switch {
		case n <= 125:
			frame = append(frame, maskBit|byte(n))
		case n <= 65535:
			frame = append(frame, maskBit|126, byte(n>>8), byte(n))
		default:
			var l [8]byte
			binary.BigEndian.PutUint64(l[:], uint64(n))
			frame = append(append(frame, maskBit|127), l[:]...)
		}
		if maskBit != 0 {
			frame = append(frame, mk[:]...)
			for j, b := range msg {
				frame = append(frame, b^mk[j&3])
			}
		} else {
			frame = append(frame, msg...)
		}
		before := len(w.wsIn)
		if !c.write(frame) {
			w.Fail("client-failed", "", "raw websocket client: write failed")
			return
		}
		// the server's (unmasked) replies
		for ri, want := range w.wsReply(msg) {
			h, ok := c.readN(2)
			if !ok {
				w.Fail("ws-message-lost", "", "masked message %d (%d bytes, key % x) drew no reply %d", i, n, mk, ri)
				return
			}
			ln := int(h[1] & 0x7f)
			if h[0] != 0x81 || h[1]&0x80 != 0 {
				w.Fail("ws-frame-malformed", "", "server frame starts % x: want a final, unmasked text frame", h)
				return
			}
			switch ln {
			case 126:
				x, _ := c.readN(2)
				ln = int(binary.BigEndian.Uint16(x))
				if ln <= 125 {
					w.Fail("ws-frame-malformed", "", "server used the 16-bit length form for %d bytes", ln)
				}
			case 127:
				x, _ := c.readN(8)
				ln = int(binary.BigEndian.Uint64(x))
				if ln <= 65535 {
					w.Fail("ws-frame-malformed", "", "server used the 64-bit length form for %d bytes", ln)
				}
			}
			if ln > 1<<20 {
				w.Fail("ws-frame-malformed", "", "server announced a frame of %d bytes, the reply has %d", ln, len(want))
				return
			}
			body, ok := c.readN(ln)
			if ri > 0 {
				w.Probes["ws_server_burst_messages"]++
			}
			if !ok || !bytes.Equal(body, want) {
				w.Fail("ws-message-altered", "to-client", "reply %d to raw message %d (%d bytes): got %d bytes, want %d, first difference at %d", ri, i, n, len(body), len(want), firstDiff(string(body), string(want)))
				return
			}
		}
		w.Log.U64(uint64(n) | 1<<40)
		w.Probes["ws_messages_masked_raw_client"]++
		wsClass(w.World, n)
		if len(w.wsIn) != before+1 || !bytes.Equal(w.wsIn[before], msg) {
			w.Fail("ws-message-altered", "to-server", "text message %d of %d bytes (masked=%v, key % x) did not reach the server intact", i, n, maskBit != 0, mk)
			return
		}
	}
	// close frame
	c.write([]byte{0x88, 0x80, 0, 0, 0, 0})
}

func (scApp) Run(t *testing.T, prop string, seed uint64, cfgRaw json.RawMessage, steps []Step, tape []byte, trace bool) *RunOut {
	var cfg AppCfg
	json.Unmarshal(cfgRaw, &cfg)
	o := &RunOut{Cfg: cfgRaw}
	saved := stack.Pstack
	defer func() { stack.Pstack, appCur = saved, nil }()
	bubble(t, func() {
		w := &appWorld{World: NewWorld(seed), cfg: cfg, seed: seed, names: map[string]bool{}}
		defer w.Close()
		w.TraceOn = trace
		rand.VerifSeed(sim.Mix(seed ^ 0x7a5d))
		ipv4.VerifReset()
		s := stack.New([]string{ipv4.ProtocolName}, []string{tcp.ProtocolName}, stack.Options{Clock: simClock{}})
		var hair *Link
		if cfg.Hairpin {
			hair = w.AddLink("hairpin", uint32(cfg.MTU), 0, "", 0)
			hair.NoLog = true
			must(s.CreateNIC(1, hair.id), "CreateNIC")
		} else {
			must(s.CreateNIC(1, loopback.New()), "CreateNIC")
		}
		must(s.AddAddress(1, ipv4.ProtocolNumber, "\xc0\xa8\x01\x01"), "AddAddress")
		s.SetRouteTable([]tcpip.Route{{Destination: "\x00\x00\x00\x00", Mask: "\x00\x00\x00\x00", NIC: 1}})
		w.s = s
		stack.Pstack = s
		appCur = w
		srv := http.NewHTTP("tap", "192.168.1.0/24", "192.168.1.1", appPort)
		appRegister(srv)
		go srv.ListenAndServ()
		w.Settle()
		r := sim.NewRand(sim.Mix(seed ^ 0xa99))
		go w.client(r)
		for i := 0; i < 400000 && !w.done; i++ {
			w.Settle()
			if hair != nil && len(hair.Queue) > 0 {
				for len(hair.Queue) > 0 {
					w.Deliver(0, 0, i%2)
				}
				continue
			}
			if !w.done {
				w.Advance(time.Millisecond)
			}
			if time.Since(w.T0) > 10*time.Minute {
				break
			}
		}
		if !w.done && w.Viol == nil {
			w.Fail("session-stuck", "", "the client session did not finish within 10 simulated minutes (request or message never completed)")
		}
		w.NSteps = int(w.Probes["http_requests"] + w.Probes["ws_messages_bundled_client"] + w.Probes["ws_messages_masked_raw_client"])
		finish(w.World, o)
		o.Nontrivial = w.Probes["ws_messages_bundled_client"] > 0 || w.Probes["http_requests"] > 0
	})
	return o
}

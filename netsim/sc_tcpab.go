package netsim

import (
	"encoding/json"
	"testing"
	"time"

	"verif/sim"
)

// scTCPAB runs the two-stack TCP world for C01, C02 and C14.
type scTCPAB struct{}

func init() {
	scenarios["tcpab"] = scTCPAB{}
	propScenario["C01"] = "tcpab"
	propScenario["C02"] = "tcpab"
	propScenario["C14"] = "tcpab"
}

// livenessBound is derived from RFC 6298: back-off doubling up to the 60 s
// cap (1+2+...+64 s) plus the 63 s of handshake retransmission.
const livenessBound = 400 * time.Second

func (scTCPAB) NeutralISS(raw json.RawMessage) json.RawMessage {
	var c ABCfg
	json.Unmarshal(raw, &c)
	c.ISSMid = true
	b, _ := json.Marshal(c)
	return b
}

func (scTCPAB) GenCfg(rng *sim.Rand, tier, prop, variant string) json.RawMessage {
	if variant == "dropenum" {
		// fault positions instead of fault rates: one canonical exchange (the applications
		// connect, write what is planned, shut down or close, read to the end) on a benign,
		// zero-delay wire that loses exactly the i-th - or the i-th and the j-th - frame
		// emitted in the run, for i < j < 64
		c := ABCfg{SackA: rng.Chance(0.5), CC: []string{"reno", "cubic"}[rng.Intn(2)], MTU: 1500, NConn: 1, DropOnly: true,
			RcvBufB: []int{0, 4096}[rng.Intn(2)], CloseMix: rng.Intn(2)}
		c.SackB = c.SackA
		c.Bytes = []int{[]int{0, 1, 3000, 20000}[rng.Intn(4)], []int{0, 2000}[rng.Intn(2)]}
		if rng.Chance(0.25) {
			c.ServerFirst, c.Bytes[0] = true, 0
		}
		i := rng.Intn(64)
		c.DropIDs = []int{i}
		if rng.Chance(0.75) {
			j := rng.Intn(64)
			if j != i {
				c.DropIDs = append(c.DropIDs, j)
			}
		}
		b, _ := json.Marshal(c)
		return b
	}
	c := GenABCfg(rng, tier, prop)
	if prop == "C02" {
		// injected one-way delays stay far below the bound; closes of every kind
		if c.CloseMix == 0 && rng.Chance(0.5) {
			c.CloseMix = rng.Range(1, 2)
		}
		// the statement's fault model: a bounded number of drops, nothing else
		c.DropOnly = true
		c.Dup, c.Reorder, c.Stale, c.Delay = 0, 0, 0, 0
		if c.Budget > 0 {
			c.Budget = rng.Range(1, 6)
			c.Drop = []float64{0.03, 0.1, 0.3}[rng.Intn(3)]
		}
		if rng.Chance(0.15) {
			// the server speaks first: the client sends nothing after the handshake until the server is done
			c.ServerFirst = true
			for i := 0; i < len(c.Bytes); i += 2 {
				c.Bytes[i] = 0
			}
		}
	}
	if prop == "C01" {
		c.CloseMix = rng.Pick(7, 3) // C01 is about the stream, mostly orderly shutdowns
	}
	if prop == "C14" {
		// forced, not merely swarmed: one side's ISS sits just below 2^31 or 2^32,
		// at most one transfer length away
		c.ISSMode = rng.Range(1, 4)
		c.ISSBack = rng.Intn(60000)
		if rng.Chance(0.3) {
			c.ISSBack = rng.Intn(6)
		}
		if c.Bytes[0] == 0 {
			c.Bytes[0] = rng.Range(1, 60000)
		}
		if c.Bytes[1] == 0 {
			c.Bytes[1] = rng.Range(1, 60000)
		}
	}
	b, _ := json.Marshal(c)
	return b
}

func (scTCPAB) Run(t *testing.T, prop string, seed uint64, cfgRaw json.RawMessage, steps []Step, tape []byte, trace bool) *RunOut {
	var cfg ABCfg
	if err := json.Unmarshal(cfgRaw, &cfg); err != nil {
		panic(err)
	}
	o := &RunOut{}
	if steps == nil && cfg.ISSMode >= 3 && cfg.KPassive == 0 {
		// pre-pass: measure the SYN-cookie constant of this configuration
		bubble(t, func() {
			mc := cfg
			mc.MeasureK = true
			mc.YieldP = 0
			w := NewABWorld(seed, mc)
			defer w.Close()
			w.connect(0)
			w.Deliver(0, 0, 0)
			c := w.conns[0]
			if c.haveISS[0] && c.haveISS[1] {
				cfg.KPassive = c.iss[1] - c.iss[0]
				if cfg.KPassive == 0 {
					cfg.KPassive = 1
				}
			}
			w.cleanup()
		})
	}
	o.Cfg, _ = json.Marshal(cfg)
	sim.SeedRuntime(sim.Mix(seed ^ 0x71e5)) // the pre-pass must not shift the main run's timer-tie stream
	bubble(t, func() {
		w := NewABWorld(seed, cfg)
		defer w.Close()
		w.TraceOn = trace
		if steps == nil {
			if cfg.ISSMode >= 3 {
				s := Step{Op: "connect", A: 0}
				w.Steps = append(w.Steps, s)
				w.Apply(s)
			}
			for i := 0; i < cfg.MaxSteps && w.Viol == nil; i++ {
				s := w.Next(i)
				w.Steps = append(w.Steps, s)
				w.Apply(s)
				w.NSteps++
			}
		} else {
			w.Replay = true
			w.Tape = tape
			for _, s := range steps {
				w.Apply(s)
				w.NSteps++
				if w.Viol != nil {
					break
				}
			}
			w.Steps = steps
		}
		w.Settle() // posted application operations finish
		if w.Viol == nil {
			w.Drain(livenessBound)
		}
		if w.Viol == nil && prop == "C02" && !w.stormed {
			w.Final(livenessBound)
		}
		if prop != "C02" && prop != "C06" && w.Viol != nil && !isStreamClass(w.Viol.Class) {
			w.Viol = nil
		}
		if trace {
			for i, n := range w.N {
				st := n.S.Stats()
				w.Tracef("stats node %d: dropped=%d malformed=%d tcp valid=%d invalid=%d sent=%d rstSent=%d rstRcvd=%d", i, st.DroppedPackets.Value(), st.MalformedRcvdPackets.Value(), st.TCP.ValidSegmentsReceived.Value(), st.TCP.InvalidSegmentsReceived.Value(), st.TCP.SegmentsSent.Value(), st.TCP.ResetsSent.Value(), st.TCP.ResetsReceived.Value())
			}
		}
		w.cleanup()
		finish(w.World, o)
		o.NoTwin = w.PlacementMissed
		if w.Replay {
			o.Tape = tape
		}
		o.Nontrivial = w.faultsFired() > 0 && w.Probes["retransmission_seen"] > 0
	})
	return o
}

func isStreamClass(c string) bool {
	return c == "stream-corrupt" || c == "stream-invented" || c == "data-after-eof" || c == "eof-before-data"
}

// cleanup closes what the applications still hold so that the bubble leaves as
// few parked goroutines behind as possible.
func (w *ABWorld) cleanup() {
	w.Settle()
	for _, c := range w.conns {
		for _, s := range c.s {
			if s != nil && s.ch != nil {
				close(s.ch)
				s.ch = nil
			}
		}
	}
	w.Probes["async_app_operations"] += int64(w.asyncOps)
	for _, c := range w.conns {
		for _, s := range c.s {
			if s != nil && !s.closed {
				s.ep.Close()
				s.closed = true
			}
		}
	}
	if w.lep != nil {
		w.lep.Close()
	}
	w.OnEmit = nil
	w.Advance(70 * time.Second) // half-open handshakes time out: the global SYN-RCVD counter returns to zero
	for _, l := range w.Links {
		l.Queue = nil
	}
}

package netsim

import (
	"bytes"
	"fmt"

	"verif/netsim/codec"

	"github.com/brewlin/net-protocol/protocol/network/arp"
	"github.com/brewlin/net-protocol/protocol/network/ipv4"
	"github.com/brewlin/net-protocol/protocol/network/ipv6"
)

// Decoded is what the independent decoder made of one emitted frame.
type Decoded struct {
	F    *Frame
	IP   *codec.Packet
	TCP  *codec.TCP
	UDP  *codec.UDP
	ICMP *codec.ICMP
	ARP  *codec.ARP
	Err  error
}

type flowKey struct {
	src, dst string
	proto    uint8
}

// Monitor is C06's frame monitor: every frame leaving a stack is decoded by
// the RFC-derived codec, which verifies lengths, checksums and option syntax.
type Monitor struct {
	lastID  map[flowKey]uint32
	haveID  map[flowKey]bool
	Frames  int
	ZeroUDP int
	Offload bool // link declares checksum offload: transport checksums are not verified
}

func NewMonitor() *Monitor {
	return &Monitor{lastID: map[flowKey]uint32{}, haveID: map[flowKey]bool{}}
}

// Check decodes f; the returned error describes the first malformation.
func (m *Monitor) Check(f *Frame) *Decoded {
	d := &Decoded{F: f}
	m.Frames++
	var et uint16
	switch f.Proto {
	case ipv4.ProtocolNumber:
		et = codec.EtherIPv4
	case ipv6.ProtocolNumber:
		et = codec.EtherIPv6
	case arp.ProtocolNumber:
		d.ARP, d.Err = codec.DecodeARP(f.Data)
		return d
	default:
		d.Err = fmt.Errorf("frame with unknown network protocol 0x%04x", uint16(f.Proto))
		return d
	}
	d.IP, d.Err = codec.DecodeIP(et, f.Data)
	if d.Err != nil {
		return d
	}
	ip := d.IP
	if !ip.V6 && len(f.Data) > 68 {
		// consecutive large packets of one flow carry different identifiers
		k := flowKey{string(ip.Src), string(ip.Dst), ip.Proto}
		if m.haveID[k] && m.lastID[k] == ip.ID {
			d.Err = fmt.Errorf("ipv4: two consecutive packets larger than 68 bytes of flow %v->%v proto %d carry the same identification %d", ip.Src, ip.Dst, ip.Proto, ip.ID)
			return d
		}
		m.lastID[k], m.haveID[k] = ip.ID, true
	}
	if ip.IsFrag {
		return d // the stack does not fragment on output; nothing more to decode
	}
	switch ip.Proto {
	case codec.ProtoTCP:
		d.TCP, d.Err = codec.DecodeTCP(ip, m.Offload)
	case codec.ProtoUDP:
		d.UDP, d.Err = codec.DecodeUDP(ip, m.Offload)
		if d.UDP != nil && d.UDP.ZeroSum {
			m.ZeroUDP++
		}
	case codec.ProtoICMP:
		if ip.V6 {
			d.Err = fmt.Errorf("ICMPv4 carried in IPv6")
		} else {
			d.ICMP, d.Err = codec.DecodeICMP(ip)
		}
	case codec.ProtoICMPv6:
		if !ip.V6 {
			d.Err = fmt.Errorf("ICMPv6 carried in IPv4")
		} else {
			d.ICMP, d.Err = codec.DecodeICMP(ip)
		}
	}
	return d
}

// AttachMonitor makes every emission of the world pass through the monitor;
// a malformed frame is a C06 violation. then is called with each decoded frame.
func (w *World) AttachMonitor(m *Monitor, then func(*Decoded)) {
	prev := w.OnEmit
	w.OnEmit = func(f *Frame) {
		if prev != nil {
			prev(f)
		}
		d := w.checkFrame(m, f)
		if then != nil {
			then(d)
		}
	}
}

// checkFrame decodes one emitted frame and applies the checks that need no
// knowledge of the scenario: syntax, lengths, checksums, identifiers, and that
// the source address is one of the emitting interface's own.
func (w *World) checkFrame(m *Monitor, f *Frame) *Decoded {
	d := m.Check(f)
	if d.Err != nil {
		w.Fail("malformed-frame", "", "frame %d emitted on link %d does not decode under the RFC-derived decoder: %v (%d bytes: % x)", f.ID, f.Link, d.Err, len(f.Data), head(f.Data, 64))
		return d
	}
	w.Probes["frames_decoded"]++
	l := w.Links[f.Link]
	if currentProp != "C06" {
		return d
	}
	if d.IP != nil && len(l.Addrs) > 0 {
		ok := false
		for _, a := range l.Addrs {
			if sameAddr(d.IP.Src, string(a)) {
				ok = true
			}
		}
		if !ok {
			w.Fail("wrong-source-address", "", "frame %d emitted on link %d has source address % x, which is not assigned to that interface (%d addresses known)", f.ID, f.Link, d.IP.Src, len(l.Addrs))
		} else {
			w.Probes["source_address_checked"]++
		}
	}
	if d.ARP != nil && len(l.Addrs) > 0 && l.addr != "" && !bytes.Equal(d.ARP.SHA, []byte(l.addr)) {
		w.Fail("wrong-source-link-address", "", "ARP packet %d emitted on link %d names sender hardware address % x, the interface has % x", f.ID, f.Link, d.ARP.SHA, []byte(l.addr))
	}
	return d
}

func head(b []byte, n int) []byte {
	if len(b) > n {
		return b[:n]
	}
	return b
}

func sameAddr(a []byte, b string) bool { return bytes.Equal(a, []byte(b)) }

package netsim

import (
	"bytes"
	"encoding/json"
	"fmt"
	"testing"
	"time"

	"verif/netsim/codec"
	"verif/sim"

	"github.com/brewlin/net-protocol/pkg/waiter"
	tcpip "github.com/brewlin/net-protocol/protocol"
	"github.com/brewlin/net-protocol/protocol/network/ipv4"
	"github.com/brewlin/net-protocol/protocol/network/ipv6"
	"github.com/brewlin/net-protocol/protocol/transport/udp"
)

// scUDP: C11 - UDP datagrams arrive whole, unmerged, at most once each, from
// the right sender; a datagram written is emitted as one packet carrying
// exactly those bytes, or the write fails. One stack, sockets on distinct
// ports (demultiplexing is C09's subject), scripted peers.
type scUDP struct{}

func init() {
	scenarios["udp"] = scUDP{}
	propScenario["C11"] = "udp"
}

type UDPCfg struct {
	MTU      int     `json:"mtu"`
	MaxSteps int     `json:"max_steps"`
	YieldP   float64 `json:"yield_p"`
}

func (scUDP) GenCfg(rng *sim.Rand, tier, prop, variant string) json.RawMessage {
	c := UDPCfg{MTU: 65535, MaxSteps: rng.Range(10, 120)}
	if rng.Chance(0.5) {
		c.YieldP = []float64{0.05, 0.3}[rng.Intn(2)]
	}
	b, _ := json.Marshal(c)
	return b
}

type udpArrival struct {
	id      int
	payload []byte
	src     tcpip.Address
	sport   uint16
	copies  int    // 1, or 2 when the wire duplicated it (indistinguishable arrivals are one record)
	takenN  int    // copies returned by Read so far
	mustN   []bool // per copy: little unread data was queued when it arrived, so it must be kept
	afterRC bool   // arrived after the read side was closed
}

type udpSock struct {
	ep        tcpip.Endpoint
	kind      int // 0 v4 bound specific, 1 v4 bound wildcard, 2 v6 bound wildcard (dual stack), 3 v4 connected, 4 v6 connected, 5 v4 unbound sender
	port      uint16
	arrivals  []*udpArrival
	next      int // index from which unread arrivals are searched (order)
	unread    int // bytes of arrivals not yet returned or known dropped (upper bound)
	readClose bool
	closed    bool
	rch       chan func()
	rch2      chan func() // a second reader goroutine
	conn      bool        // currently connected ...
	cpeer     int         // ... to this peer (index into udpPeers4/6)
	cport     uint16      // ... and port
	reads     int
	cv4       bool   // (dual-stack socket) currently connected to an IPv4 peer through its mapped address
	lastOut   *Frame // the datagram this socket emitted last (what an ICMP error would quote)
}

type udpWorld struct {
	*PeerWorld
	socks   []*udpSock
	narr    int
	pending int
	inAsync int
}

var udpPeers4 = []tcpip.Address{B4, "\x0a\x00\x00\x03"}
var udpPeers6 = []tcpip.Address{B6, "\xfd\x00\x00\x00\x00\x00\x00\x00\x00\x00\x00\x00\x00\x00\x00\x03"}

func udpPayload(seed uint64, id, n int) []byte {
	b := make([]byte, n)
	for i := range b {
		b[i] = byte(sim.Mix(seed^uint64(id)<<24^uint64(i>>3)) >> (8 * uint(i&7)))
	}
	if n >= 4 { // make every payload unique and self-identifying
		b[0], b[1], b[2], b[3] = byte(id>>24), byte(id>>16), byte(id>>8), byte(id)
	}
	return b
}

func (w *udpWorld) open(kind, pi int) {
	if len(w.socks) >= 6 {
		return
	}
	port := uint16(7000 + len(w.socks))
	net := ipv4.ProtocolNumber
	if kind == 2 || kind == 4 {
		net = ipv6.ProtocolNumber
	}
	ep, err := w.S.S.NewEndpoint(udp.ProtocolNumber, net, &waiter.Queue{})
	must(err, "udp NewEndpoint")
	s := &udpSock{ep: ep, kind: kind, port: port}
	var e *tcpip.Error
	switch kind {
	case 0:
		e = ep.Bind(tcpip.FullAddress{Addr: A4, Port: port}, nil)
	case 1, 2:
		e = ep.Bind(tcpip.FullAddress{Port: port}, nil)
	case 3:
		e = ep.Bind(tcpip.FullAddress{Addr: A4, Port: port}, nil)
		if e == nil {
			e = ep.Connect(tcpip.FullAddress{Addr: udpPeers4[0], Port: 9000})
		}
	case 4:
		e = ep.Bind(tcpip.FullAddress{Addr: A6, Port: port}, nil)
		if e == nil {
			e = ep.Connect(tcpip.FullAddress{Addr: udpPeers6[0], Port: 9000})
		}
	case 5:
		// unbound: gets an ephemeral port on first write
	}
	if e != nil {
		w.Fail("socket-setup-failed", "", "opening a UDP socket of kind %d on port %d failed: %v", kind, port, e)
		return
	}
	if kind == 3 || kind == 4 {
		s.conn, s.cpeer, s.cport = true, 0, 9000
	}
	if pi%2 == 1 {
		// receive timestamps: Read then consults the clock after releasing its lock
		ep.SetSockOpt(tcpip.TimestampOption(1))
	}
	w.socks = append(w.socks, s)
	w.Settle()
}

// arrive injects a datagram addressed to socket si.
func (w *udpWorld) arrive(si, n, srcSel, flags int, wait bool) {
	if si < 0 || si >= len(w.socks) {
		return
	}
	s := w.socks[si]
	if s.kind == 5 || s.closed {
		return
	}
	v6 := s.kind == 4 || (s.kind == 2 && flags&1 != 0)
	if s.kind == 2 && s.conn {
		v6 = !s.cv4 // connected to an IPv6 peer - or to an IPv4 one
	}
	var src, dst tcpip.Address
	sport := uint16(9000 + (srcSel>>1)%2)
	if v6 {
		src, dst = udpPeers6[srcSel%2], A6
	} else {
		src, dst = udpPeers4[srcSel%2], A4
	}
	if s.conn && flags&64 != 0 && wait {
		// a stranger: a host or port the socket is not connected to sends to its port - in either address family
		// where the socket's binding would cover it. A connected socket hears its peer only.
		w.narr++
		payload := udpPayload(w.seed, w.narr, 20+n%400)
		from4, from6, fport := udpPeers4[1-s.cpeer], udpPeers6[1-s.cpeer], uint16(9000+(srcSel>>1)%2)
		if flags&128 != 0 {
			from4, from6, fport = udpPeers4[s.cpeer], udpPeers6[s.cpeer], s.cport^1
		}
		if s.kind == 3 || (s.kind == 2 && flags&1 == 0) {
			w.ipid++ // (for a dual-stack socket either family may be the one its connection does not use)
			w.Inject4(codec.IPv4([]byte(from4), []byte(A4), codec.ProtoUDP, w.ipid, 64, false, false, 0, codec.EncodeUDP([]byte(from4), []byte(A4), fport, s.port, payload)), 0)
		} else {
			w.Inject6(codec.IPv6([]byte(from6), []byte(A6), codec.ProtoUDP, 64, codec.EncodeUDP([]byte(from6), []byte(A6), fport, s.port, payload)), 0)
		}
		w.Probes["strangers_sending_to_connected_sockets"]++
		w.Take()
		return
	}
	if s.conn { // connected: only its peer reaches it
		sport = s.cport
		if v6 {
			src = udpPeers6[s.cpeer]
		} else {
			src = udpPeers4[s.cpeer]
		}
	}
	w.narr++
	a := &udpArrival{id: w.narr, payload: udpPayload(w.seed, w.narr, n), src: src, sport: sport, afterRC: s.readClose, copies: 1}
	// payloads shorter than 4 bytes cannot carry their identity: never let two
	// indistinguishable datagrams (same bytes, same sender) be outstanding at once
	for _, x := range s.arrivals {
		if x.takenN < x.copies && bytes.Equal(x.payload, a.payload) && x.src == src && x.sport == sport {
			n = 4 + n
			a.payload = udpPayload(w.seed, w.narr, n)
			break
		}
	}
	a.mustN = []bool{!s.readClose && s.unread <= 2048}
	s.arrivals = append(s.arrivals, a)
	if !s.readClose {
		s.unread += n
	}
	dg := codec.EncodeUDP([]byte(src), []byte(dst), sport, s.port, a.payload)
	dup := flags&2 != 0
	if flags&32 != 0 && !v6 && !s.conn && !dup && wait && len(dg) >= 32 {
		// two senders, one IP identification: this datagram and one from the other peer (same ports), both in two
		// fragments, interleaved A1 B1 B2 A2 - two datagrams, each whole, each from its own sender; B is complete first
		other := udpPeers4[1-srcSel%2]
		w.narr++
		b := &udpArrival{id: w.narr, payload: udpPayload(w.seed, w.narr, n), src: other, sport: sport, afterRC: s.readClose, copies: 1}
		b.mustN = []bool{!s.readClose && s.unread <= 2048}
		s.arrivals = append(s.arrivals[:len(s.arrivals)-1], b, a)
		if !s.readClose {
			s.unread += n
		}
		a.mustN = []bool{!s.readClose && s.unread-n <= 2048} // (A is complete after B: B's bytes are unread by then)
		dg2 := codec.EncodeUDP([]byte(other), []byte(dst), sport, s.port, b.payload)
		cut := (len(dg) / 2) &^ 7
		w.ipid++
		fr := func(from tcpip.Address, d []byte, first bool) []byte {
			if first {
				return codec.IPv4([]byte(from), []byte(dst), codec.ProtoUDP, w.ipid, 64, false, true, 0, d[:cut])
			}
			return codec.IPv4([]byte(from), []byte(dst), codec.ProtoUDP, w.ipid, 64, false, false, cut, d[cut:])
		}
		w.Inject4(fr(src, dg, true), 0)
		w.Inject4(fr(other, dg2, true), 0)
		w.Inject4(fr(other, dg2, false), 0)
		w.Inject4(fr(src, dg, false), 0)
		w.Probes["interleaved_fragments_of_two_senders"]++
		w.Take()
		return
	}
	// a short frame is padded by the link (an Ethernet frame has at least 46 bytes of payload): what lies
	// behind the IP packet is not part of the datagram
	var pad []byte
	if flags&16 != 0 && n <= 40 {
		pad = bytes.Repeat([]byte{0xdd}, 1+(w.narr*7)%18)
		w.Probes["arrivals_with_link_padding"]++
	}
	if dup {
		// wire duplication: a second arrival with the same bytes from the same sender
		// (registered before the first copy is injected: a reader may be waiting)
		a.copies = 2
		a.mustN = append(a.mustN, !s.readClose && s.unread <= 2048)
		if !s.readClose {
			s.unread += n
		}
		w.Faults["duplicate"]++
	}
	for k := 0; k < 1+b2i(dup); k++ {

		if v6 {
			pkt := append(codec.IPv6([]byte(src), []byte(dst), codec.ProtoUDP, 64, dg), pad...)
			if wait {
				w.Inject6(pkt, (flags>>2)%3)
			} else {
				w.InjectNoWait(w.S.Link, ipv6.ProtocolNumber, pkt, (flags>>2)%3)
			}
		} else {
			w.ipid++
			pkt := append(codec.IPv4([]byte(src), []byte(dst), codec.ProtoUDP, w.ipid, 64, false, false, 0, dg), pad...)
			if wait {
				w.Inject4(pkt, (flags>>2)%3)
			} else {
				w.InjectNoWait(w.S.Link, ipv4.ProtocolNumber, pkt, (flags>>2)%3)
			}
		}
	}
	w.Take()
}

func b2i(b bool) int {
	if b {
		return 1
	}
	return 0
}

// read takes one datagram from socket si and checks it against the arrivals.
func (w *udpWorld) read(si int) bool { return w.readMode(si, false) }

// readMode: with concurrent set, another reader may be inside Read on the same
// socket: the two calls may finish in either order, so arrivals are matched
// wherever they are and nothing is inferred about the ones passed over.
func (w *udpWorld) readMode(si int, concurrent bool) bool {
	if si < 0 || si >= len(w.socks) {
		return false
	}
	s := w.socks[si]
	if s.closed || s.kind == 5 {
		return false
	}
	var from tcpip.FullAddress
	v, _, err := s.ep.Read(&from)
	if err != nil {
		return false
	}
	s.reads++
	w.Tracef("read sock=%d len=%d from=%x:%d next=%d arrivals=%d", si, len(v), []byte(from.Addr), from.Port, s.next, len(s.arrivals))
	// the earliest arrival record with an unreturned copy of exactly these bytes from this sender
	var hit *udpArrival
	idx := -1
	from0 := s.next
	if concurrent {
		from0 = 0
	}
	for pass := 0; pass < 2 && hit == nil; pass++ {
		for i := from0; i < len(s.arrivals); i++ {
			a := s.arrivals[i]
			if a.takenN < a.copies && bytes.Equal(a.payload, v) && (pass == 1 || (a.src == from.Addr && a.sport == from.Port)) {
				hit, idx = a, i
				break
			}
		}
	}
	if hit == nil {
		for _, a := range s.arrivals {
			if bytes.Equal(a.payload, v) {
				w.Fail("datagram-returned-twice-or-reordered", "", "socket %d (port %d): Read returned the %d-byte payload of arrival #%d more often than it arrived, or out of arrival order", si, s.port, len(v), a.id)
				return true
			}
		}
		w.Fail("datagram-altered", "", "socket %d (port %d): Read returned %d bytes (% x...) that are not the payload of any datagram sent to it (truncated, split, merged or invented)", si, s.port, len(v), head(v, 16))
		return true
	}
	if concurrent {
		hit.takenN++
		w.Probes["reads_overlapping_another_reader"]++
		for s.next < len(s.arrivals) && s.arrivals[s.next].takenN == s.arrivals[s.next].copies {
			s.next++
		}
	} else {
		// everything passed over was dropped whole
		for i := s.next; i < idx; i++ {
			w.pass(si, s, s.arrivals[i])
		}
		hit.takenN++
		s.next = idx
		if hit.takenN == hit.copies {
			s.next = idx + 1
		}
	}
	if !hit.afterRC {
		s.unread -= len(hit.payload)
	}
	if hit.afterRC {
		w.Fail("datagram-after-read-shutdown", "", "socket %d: Read returned arrival #%d, which arrived after the read side had been shut down", si, hit.id)
	}
	wantAddr := hit.src
	if from.Port != hit.sport || from.Addr != wantAddr {
		w.Fail("wrong-sender", "", "socket %d: datagram #%d came from % x port %d, Read reported % x port %d", si, hit.id, []byte(hit.src), hit.sport, []byte(from.Addr), from.Port)
	}
	return true
}

func (w *udpWorld) write(si, n, dstSel int) {
	if si < 0 || si >= len(w.socks) {
		return
	}
	s := w.socks[si]
	if s.closed {
		return
	}
	w.Take()
	w.narr++
	payload := udpPayload(w.seed, w.narr, n)
	opts := tcpip.WriteOptions{}
	v6 := s.kind == 2 || s.kind == 4
	var dst tcpip.Address
	dport := uint16(9000 + dstSel%2)
	connected := s.conn
	if !connected {
		if v6 {
			dst = udpPeers6[dstSel%2]
			if s.kind == 2 && dstSel&4 != 0 {
				dst = tcpip.Address("\x00\x00\x00\x00\x00\x00\x00\x00\x00\x00\xff\xff" + string(udpPeers4[dstSel%2])) // v4-mapped
			}
		} else {
			dst = udpPeers4[dstSel%2]
		}
		opts.To = &tcpip.FullAddress{Addr: dst, Port: dport}
	} else {
		dport = s.cport
		if v6 {
			dst = udpPeers6[s.cpeer]
			if s.cv4 {
				dst = tcpip.Address("\x00\x00\x00\x00\x00\x00\x00\x00\x00\x00\xff\xff" + string(udpPeers4[s.cpeer]))
			}
		} else {
			dst = udpPeers4[s.cpeer]
		}
		if dstSel&4 != 0 {
			// sendto on a connected socket: the datagram goes where this call says, not to the connected peer
			if v6 {
				dst = udpPeers6[dstSel%2]
			} else {
				dst = udpPeers4[dstSel%2]
			}
			dport = 9000 + uint16(dstSel>>1)%2
			opts.To = &tcpip.FullAddress{Addr: dst, Port: dport}
			w.Probes["sendto_on_connected_socket"]++
		}
	}
	got, _, err := s.ep.Write(tcpip.SlicePayload(append([]byte(nil), payload...)), opts)
	w.Settle()
	var frames []*Decoded
	for _, d := range w.Take() {
		if d.UDP != nil || d.Err != nil {
			frames = append(frames, d)
		}
	}
	if err != nil {
		w.Probes["write_failed"]++
		if len(frames) != 0 {
			w.Fail("failed-write-emitted", "", "Write of %d bytes failed (%v) but %d packet(s) left the stack", n, err, len(frames))
		}
		return
	}
	w.Probes["writes"]++
	if int(got) != n {
		w.Fail("short-write", "", "Write of %d bytes reported %d", n, got)
	}
	if len(frames) != 1 {
		w.Fail("write-not-one-packet", "", "a successful Write of %d bytes produced %d packets, exactly one is required", n, len(frames))
		return
	}
	d := frames[0]
	if d.Err != nil {
		w.Fail("write-not-one-packet", "", "a successful Write of %d bytes produced a packet that does not decode: %v", n, d.Err)
		return
	}
	s.lastOut = d.F
	wantDst := dst
	if len(dst) == 16 && bytes.HasPrefix([]byte(dst), []byte("\x00\x00\x00\x00\x00\x00\x00\x00\x00\x00\xff\xff")) {
		wantDst = dst[12:]
	}
	if !bytes.Equal(d.UDP.Payload, payload) {
		w.Fail("written-bytes-altered", "", "Write of %d bytes: the emitted datagram carries %d bytes that differ from what was written", n, len(d.UDP.Payload))
	}
	if !sameAddr(d.IP.Dst, string(wantDst)) || d.UDP.DstPort != dport {
		w.Fail("wrong-destination", "", "datagram written to % x port %d was emitted to % x port %d", []byte(wantDst), dport, d.IP.Dst, d.UDP.DstPort)
	}
	if s.kind != 5 && d.UDP.SrcPort != s.port {
		w.Fail("wrong-source-port", "", "socket bound to port %d emitted a datagram from port %d", s.port, d.UDP.SrcPort)
	}
}

func (w *udpWorld) apply(s Step) {
	if s.Op == "read" || s.Op == "drain" || s.Op == "shutr" || s.Op == "close" || s.Op == "write" || s.Op == "open" || s.Op == "connect" || s.Op == "icmperr" || s.Op == "failbind" || s.Op == "cwrite" {
		// the simulator's own socket calls are ordered after everything posted so
		// far (posted reads, arrivals still in the receive goroutine's inbox)
		w.Settle()
	}
	switch s.Op {
	case "open":
		w.open(s.A, s.B)
	case "arrive":
		w.arrive(s.A, int(s.D), s.B, s.C, true)
	case "narrive":
		w.arrive(s.A, int(s.D), s.B, s.C, false)
	case "burst":
		for i := 0; i < s.B; i++ {
			w.arrive(s.A, int(s.D), i, s.C, false)
		}
		w.Settle()
	case "read":
		w.read(s.A)
	case "aread":
		// B selects one of two reader goroutines of the socket: two application threads may read one socket
		if s.A >= 0 && s.A < len(w.socks) {
			sk := w.socks[s.A]
			rp := &sk.rch
			if s.B%2 == 1 {
				rp = &sk.rch2
			}
			if *rp == nil {
				*rp = make(chan func(), 64)
				ch := *rp
				go func() {
					for f := range ch {
						f()
					}
				}()
			}
			w.pending++
			a := s.A
			select {
			case *rp <- func() { w.readMode(a, sk.rch2 != nil); w.pending-- }:
			default:
				w.pending--
			}
		}
	case "drain":
		for w.read(s.A) {
		}
	case "shutr":
		if s.A >= 0 && s.A < len(w.socks) && !w.socks[s.A].closed {
			if w.socks[s.A].ep.Shutdown(tcpip.ShutdownRead) == nil {
				w.socks[s.A].readClose = true
				w.Probes["read_shutdown"]++
			}
			w.Settle()
		}
	case "close":
		if s.A >= 0 && s.A < len(w.socks) && !w.socks[s.A].closed {
			w.socks[s.A].ep.Close()
			w.socks[s.A].closed = true
			w.Settle()
		}
	case "write":
		w.write(s.A, int(s.D), s.B)
	case "connect":
		// (re)connect a bound or connected socket: what is already queued stays queued and keeps its sender
		if s.A >= 0 && s.A < len(w.socks) {
			sk := w.socks[s.A]
			if sk.closed || sk.kind == 5 {
				break
			}
			p, q := s.B%2, uint16(9000+(s.B>>1)%2)
			to := tcpip.FullAddress{Addr: udpPeers4[p], Port: q}
			cv4 := false
			if sk.kind == 2 || sk.kind == 4 {
				to.Addr = udpPeers6[p]
				if sk.kind == 2 && s.B&4 != 0 {
					// a dual-stack socket connected to an IPv4 peer, named by its mapped address
					to.Addr = tcpip.Address("\x00\x00\x00\x00\x00\x00\x00\x00\x00\x00\xff\xff" + string(udpPeers4[p]))
					cv4 = true
					w.Probes["dual_stack_sockets_connected_to_an_ipv4_peer"]++
				}
			}
			if e := sk.ep.Connect(to); e == nil {
				sk.cv4 = cv4
				sk.conn, sk.cpeer, sk.cport = true, p, q
				w.Probes["reconnects"]++
			}
			w.Settle()
		}
	case "cwrite":
		// two goroutines write on one unconnected IPv4 socket at the same time, to different destinations: two
		// packets, each carrying its own bytes to its own destination
		if s.A < 0 || s.A >= len(w.socks) {
			break
		}
		sk := w.socks[s.A]
		if sk.closed || sk.conn || (sk.kind != 0 && sk.kind != 1) {
			break
		}
		w.Take()
		var pay [2][]byte
		var errs [2]*tcpip.Error
		done := make(chan int, 2)
		for i := 0; i < 2; i++ {
			w.narr++
			pay[i] = udpPayload(w.seed, w.narr, 10+(s.B*(i+3))%300)
			i := i
			go func() {
				_, _, errs[i] = sk.ep.Write(tcpip.SlicePayload(append([]byte(nil), pay[i]...)), tcpip.WriteOptions{To: &tcpip.FullAddress{Addr: udpPeers4[i], Port: uint16(9000 + i)}})
				done <- i
			}()
		}
		w.Settle()
		<-done
		<-done
		w.Probes["concurrent_writes_on_one_socket"]++
		var frames []*Decoded
		for _, d := range w.Take() {
			if d.UDP != nil || d.Err != nil {
				frames = append(frames, d)
			}
		}
		for i := 0; i < 2; i++ {
			if errs[i] != nil {
				continue // (a link fault may refuse one: the write then failed, nothing is owed)
			}
			n := 0
			for _, d := range frames {
				if d.Err == nil && bytes.Equal(d.UDP.Payload, pay[i]) {
					n++
					if !sameAddr(d.IP.Dst, string(udpPeers4[i])) || d.UDP.DstPort != uint16(9000+i) {
						w.Fail("wrong-destination", "", "two concurrent writes on one socket: the datagram written to % x port %d was emitted to % x port %d", []byte(udpPeers4[i]), 9000+i, d.IP.Dst, d.UDP.DstPort)
					}
				}
			}
			if n != 1 {
				w.Fail("write-not-one-packet", "", "two concurrent writes on one socket: the %d-byte datagram written to % x port %d was emitted %d times as such (%d frames left the stack)", len(pay[i]), []byte(udpPeers4[i]), 9000+i, n, len(frames))
			}
		}
	case "icmperr":
		// the destination of the socket's last datagram reports "port unreachable", quoting it: whatever
		// the following Reads report, they must not hand out a datagram nobody sent
		if s.A >= 0 && s.A < len(w.socks) {
			sk := w.socks[s.A]
			if sk.closed || sk.lastOut == nil || len(sk.lastOut.Data) < 28 {
				break
			}
			q := sk.lastOut.Data
			if q[0]>>4 == 4 {
				ihl := int(q[0]&15) * 4
				if len(q) > ihl+8 {
					q = q[:ihl+8]
				}
				w.InjectIP(false, tcpip.Address(sk.lastOut.Data[16:20]), tcpip.Address(sk.lastOut.Data[12:16]), codec.ProtoICMP, codec.EncodeICMPv4(3, 3, 0, q), 0)
			} else {
				if len(q) > 600 {
					q = q[:600]
				}
				src, dst := sk.lastOut.Data[24:40], sk.lastOut.Data[8:24]
				w.InjectIP(true, tcpip.Address(src), tcpip.Address(dst), codec.ProtoICMPv6, codec.EncodeICMPv6(src, dst, 1, 4, 0, q), 0)
			}
			w.Probes["icmp_errors_for_sent_datagrams"]++
			w.Settle()
			for i := 0; i < 3; i++ {
				w.read(s.A)
			}
		}
	case "failbind":
		// a bind whose commit step fails, with a datagram for that port arriving while the commit runs:
		// the socket never owned the port, so it must never return that datagram - also not once it
		// is bound elsewhere
		ep, err := w.S.S.NewEndpoint(udp.ProtocolNumber, ipv4.ProtocolNumber, &waiter.Queue{})
		must(err, "udp NewEndpoint")
		p1, p2 := uint16(7300+s.A%200), uint16(7600+s.A%200)
		w.narr++
		payload := udpPayload(w.seed, w.narr, 20+s.B%100)
		e := ep.Bind(tcpip.FullAddress{Addr: A4, Port: p1}, func() *tcpip.Error {
			w.InjectIP(false, udpPeers4[0], A4, codec.ProtoUDP, codec.EncodeUDP([]byte(udpPeers4[0]), []byte(A4), 9000, p1, payload), 0)
			return tcpip.ErrNoRoute
		})
		w.Settle()
		if e == nil {
			w.Fail("socket-setup-failed", "", "Bind succeeded although its commit step failed")
		}
		if e := ep.Bind(tcpip.FullAddress{Addr: A4, Port: p2}, nil); e == nil {
			if v, _, err := ep.Read(nil); err == nil {
				w.Fail("datagram-for-another-socket", "", "a socket bound to port %d returned a %d-byte datagram that was sent to port %d (which it tried to bind, and failed)", p2, len(v), p1)
			}
		}
		w.Probes["binds_failing_at_commit"]++
		ep.Close()
		w.Settle()
		w.Take()
	case "linkfault":
		// the device refuses the next frame(s): a write hitting it must fail, not pretend
		w.S.Link.FailWrites = 1 + s.A%2
		w.Probes["link_write_faults_armed"]++
	case "tsopt":
		// switch receive timestamps on/off: datagrams queued without one get it at Read time, outside the lock
		if s.A >= 0 && s.A < len(w.socks) && !w.socks[s.A].closed {
			w.socks[s.A].ep.SetSockOpt(tcpip.TimestampOption(s.B))
		}
	case "adv":
		w.Advance(time.Duration(s.D))
	}
}

func udpLen(r *sim.Rand) int {
	lens := []int{0, 1, 2, 3, 7, 8, 9, 511, 512, 1471, 1472, 1473, 8191, 32767, 32768, 65000, 65506, 65507}
	if r.Chance(0.5) {
		return lens[r.Intn(len(lens))]
	}
	return r.Intn(3000)
}

func (w *udpWorld) next() Step {
	r := w.Rng
	if len(w.socks) == 0 || (len(w.socks) < 4 && r.Chance(0.15)) {
		return Step{Op: "open", A: r.Intn(6), B: r.Intn(2)}
	}
	si := r.Intn(len(w.socks))
	if r.Chance(0.06) {
		return Step{Op: "tsopt", A: si, B: r.Intn(2)}
	}
	switch r.Pick(10, 3, 2, 6, 2, 3, 1, 1, 2, 1, 1, 1, 1, 1) {
	case 13:
		return Step{Op: "cwrite", A: si, B: r.Intn(1000)}
	case 11:
		return Step{Op: "icmperr", A: si}
	case 12:
		return Step{Op: "failbind", A: r.Intn(200), B: r.Intn(100)}
	case 9:
		return Step{Op: "connect", A: si, B: r.Intn(8)}
	case 10:
		return Step{Op: "linkfault", A: r.Intn(2)}
	case 0:
		if w.YieldP > 0 && r.Chance(0.6) {
			return Step{Op: "narrive", A: si, B: r.Intn(4), C: r.Intn(256), D: int64(udpLen(r))}
		}
		return Step{Op: "arrive", A: si, B: r.Intn(4), C: r.Intn(256), D: int64(udpLen(r))}
	case 1:
		return Step{Op: "narrive", A: si, B: r.Intn(4), C: r.Intn(256), D: int64(udpLen(r))}
	case 2:
		return Step{Op: "burst", A: si, B: r.Range(2, 40), C: r.Intn(16), D: int64([]int{100, 1000, 2000, 8000}[r.Intn(4)])}
	case 3:
		if w.YieldP > 0 && r.Chance(0.8) {
			return Step{Op: "aread", A: si, B: r.Pick(3, 1)}
		}
		return Step{Op: "read", A: si}
	case 4:
		return Step{Op: "drain", A: si}
	case 5:
		n := udpLen(r)
		if r.Chance(0.1) {
			n = r.Range(65500, 65540)
		}
		return Step{Op: "write", A: si, B: r.Intn(8), D: int64(n)}
	case 6:
		return Step{Op: "shutr", A: si}
	case 7:
		return Step{Op: "close", A: si}
	}
	return Step{Op: "adv", D: int64(time.Duration(r.Range(1, 2000)) * time.Millisecond)}
}

func (scUDP) Run(t *testing.T, prop string, seed uint64, cfgRaw json.RawMessage, steps []Step, tape []byte, trace bool) *RunOut {
	var cfg UDPCfg
	json.Unmarshal(cfgRaw, &cfg)
	o := &RunOut{Cfg: cfgRaw}
	bubble(t, func() {
		w := &udpWorld{PeerWorld: NewPeerWorld(seed, uint32(cfg.MTU), NodeOpts{})}
		defer w.Close()
		w.TraceOn = trace
		w.YieldP = cfg.YieldP
		if steps == nil {
			for i := 0; i < cfg.MaxSteps && w.Viol == nil; i++ {
				s := w.next()
				w.Steps = append(w.Steps, s)
				w.apply(s)
				w.NSteps++
			}
		} else {
			for _, s := range steps {
				w.apply(s)
				w.NSteps++
				if w.Viol != nil {
					break
				}
			}
			w.Steps = steps
		}
		w.Settle()
		reads := 0
		for i, s := range w.socks {
			if w.Viol == nil && !s.closed {
				for w.read(i) {
				}
				for _, a := range s.arrivals[s.next:] {
					w.pass(i, s, a)
				}
			}
			reads += s.reads
			if s.rch2 != nil {
				close(s.rch2)
			}
			if s.rch != nil {
				close(s.rch)
			}
			if !s.closed {
				s.ep.Close()
			}
		}
		w.Settle()
		w.Probes["datagrams_read"] += int64(reads)
		w.Probes["udp_zero_checksum_sent_as_zero"] += int64(w.Mon.ZeroUDP)
		w.OnEmit = nil
		finish(w.World, o)
		if w.Replay {
			o.Tape = tape
		}
		o.Nontrivial = reads > 0
		_ = fmt.Sprint
	})
	return o
}

// pass accounts for the copies of an arrival that will never be returned any
// more: they were dropped whole, which is a violation if they had to be kept.
func (w *udpWorld) pass(si int, s *udpSock, a *udpArrival) {
	// the copies dropped are the last ones (a full buffer drops later arrivals)... any must copy beyond those taken counts
	need := 0
	for _, m := range a.mustN {
		if m {
			need++
		}
	}
	lost := a.copies - a.takenN
	if lost <= 0 {
		return
	}
	w.Probes["dropped_whole"] += int64(lost)
	if a.takenN < need && w.Viol == nil {
		w.Fail("datagram-lost", "", "socket %d (port %d): arrival #%d (%d bytes, %d cop(ies)) was returned %d time(s) although %d cop(ies) arrived with at most 2 KB unread and the read side open", si, s.port, a.id, len(a.payload), a.copies, a.takenN, need)
	}
	if !a.afterRC {
		s.unread -= lost * len(a.payload)
	}
	a.takenN = a.copies
}

package netsim

import (
	"bytes"
	"encoding/json"
	"testing"
	"time"

	"verif/netsim/codec"
	"verif/sim"

	"github.com/brewlin/net-protocol/pkg/waiter"
	tcpip "github.com/brewlin/net-protocol/protocol"
	"github.com/brewlin/net-protocol/protocol/network/ipv4"
	"github.com/brewlin/net-protocol/protocol/transport/tcp"
	"github.com/brewlin/net-protocol/protocol/transport/udp"
)

// scDemux: C09 - inbound packets reach exactly the socket they are addressed
// to, or nobody. One stack with two NICs and three local addresses, a small
// universe of ports and remote peers, UDP sockets bound to wildcard/specific
// addresses or connected, TCP listeners and established connections; after
// every injected packet every open socket is read.
type scDemux struct{}

func init() {
	scenarios["demux"] = scDemux{}
	propScenario["C09"] = "demux"
}

type DemuxCfg struct {
	Promisc  bool    `json:"promiscuous"`
	Subnet   bool    `json:"subnet"`
	MaxSteps int     `json:"max_steps"`
	YieldP   float64 `json:"yield_p"`
}

func (scDemux) GenCfg(rng *sim.Rand, tier, prop, variant string) json.RawMessage {
	c := DemuxCfg{Promisc: rng.Chance(0.15), Subnet: rng.Chance(0.15), MaxSteps: rng.Range(10, 80)}
	if rng.Chance(0.4) {
		c.YieldP = []float64{0.05, 0.3}[rng.Intn(2)]
	}
	b, _ := json.Marshal(c)
	return b
}

var (
	dmLocal = []tcpip.Address{"", A4, "\x0a\x00\x00\x05", "\x0a\x01\x00\x01", "\x0a\x00\x00\x4d"} // wildcard, NIC1, NIC1, NIC2, unassigned (in NIC1's subnet)
	dmNICof = []int{-1, 0, 0, 1, -1}
	dmPorts = []uint16{5000, 5001, 5002}
	dmRAddr = []tcpip.Address{B4, B4, "\x0a\x00\x00\x03"}
	dmRPort = []uint16{9000, 9001, 9000}
)

type dmSock struct {
	tcp      bool
	listener bool
	ep       tcpip.Endpoint
	laddr    tcpip.Address // "" = wildcard
	lport    uint16
	raddr    tcpip.Address // "" = not connected
	rport    uint16
	closed   bool
	peer     *TCPPeer // established TCP connection: the scripted peer's state
	sent     int64
}

type dmWorld struct {
	*PeerWorld
	cfg   DemuxCfg
	link2 *Link
	socks []*dmSock
	npkt  int
}

func (w *dmWorld) owned(nic int, dst tcpip.Address) bool {
	for i, a := range dmLocal {
		if i > 0 && a == dst && dmNICof[i] == nic {
			return true
		}
	}
	if nic == 0 && w.cfg.Promisc {
		return true
	}
	if nic == 0 && w.cfg.Subnet && len(dst) == 4 && dst[0] == 10 && dst[1] == 0 && dst[2] == 0 {
		return true
	}
	return false
}

// winner is the reference function written from the statement.
func (w *dmWorld) winner(isTCP bool, dst tcpip.Address, dport uint16, src tcpip.Address, sport uint16) *dmSock {
	var best *dmSock
	score := -1
	for _, s := range w.socks {
		if s.closed || s.tcp != isTCP || s.lport != dport {
			continue
		}
		if s.laddr != "" && s.laddr != dst {
			continue
		}
		if s.raddr != "" && (s.raddr != src || s.rport != sport) {
			continue
		}
		sc := 0
		if s.raddr != "" {
			sc += 2 // a connected socket before a listener or bound socket
		}
		if s.laddr != "" {
			sc++ // a specific local address before the wildcard
		}
		if sc > score {
			best, score = s, sc
		}
	}
	return best
}

func (w *dmWorld) conflict(isTCP bool, laddr tcpip.Address, lport uint16) bool {
	for _, s := range w.socks {
		if !s.closed && s.tcp == isTCP && s.lport == lport && (s.laddr == laddr || s.laddr == "" || laddr == "") {
			return true
		}
	}
	return false
}

func (w *dmWorld) open(kind, ai, pi, ri int) {
	if len(w.socks) >= 10 {
		return
	}
	laddr, lport := dmLocal[ai%4], dmPorts[pi%3]
	switch kind {
	case 0, 1: // UDP bound / connected
		if kind == 1 && laddr == "" {
			laddr = dmLocal[1]
		}
		ep, err := w.S.S.NewEndpoint(udp.ProtocolNumber, ipv4.ProtocolNumber, &waiter.Queue{})
		must(err, "udp endpoint")
		if e := ep.Bind(tcpip.FullAddress{Addr: laddr, Port: lport}, nil); e != nil {
			if !w.conflict(false, laddr, lport) {
				w.Probes["bind_failed_without_conflict"]++
			}
			ep.Close()
			return
		}
		s := &dmSock{ep: ep, laddr: laddr, lport: lport}
		if kind == 1 {
			ra, rp := dmRAddr[ri%3], dmRPort[ri%3]
			if laddr == dmLocal[3] {
				// NIC2's address cannot reach the 10.0.0.x peers through the route table: keep it bound only
			} else if e := ep.Connect(tcpip.FullAddress{Addr: ra, Port: rp}); e == nil {
				s.raddr, s.rport = ra, rp
			}
		}
		w.socks = append(w.socks, s)
	case 2: // TCP listener
		ep, err := w.S.S.NewEndpoint(tcp.ProtocolNumber, ipv4.ProtocolNumber, &waiter.Queue{})
		must(err, "tcp endpoint")
		if e := ep.Bind(tcpip.FullAddress{Addr: laddr, Port: lport}, nil); e != nil {
			ep.Close()
			return
		}
		if e := ep.Listen(4); e != nil {
			ep.Close()
			return
		}
		w.socks = append(w.socks, &dmSock{tcp: true, listener: true, ep: ep, laddr: laddr, lport: lport})
	case 3: // TCP connection through a real handshake with a matching listener
		dst := dmLocal[1+ai%2]
		ra, rp := dmRAddr[ri%3], dmRPort[ri%3]
		l := w.winner(true, dst, lport, ra, rp)
		if l == nil || !l.listener {
			return
		}
		p := w.NewTCPPeer(false, rp, lport, uint32(sim.Mix(w.seed^uint64(len(w.socks)))))
		p.PAddr, p.SAddr = ra, dst
		w.Take()
		p.Send(codec.FlagSYN, p.ISS, 0, 65535, nil, nil)
		mine := p.Mine(w.Take())
		if len(mine) == 0 || mine[0].Flags&codec.FlagSYN == 0 {
			return
		}
		p.SndNxt = p.ISS + 1
		p.Send(codec.FlagACK, p.SndNxt, p.RcvNxt, 65535, nil, nil)
		p.Mine(w.Take())
		ep, _, e := l.ep.Accept()
		if e != nil {
			return
		}
		w.socks = append(w.socks, &dmSock{tcp: true, ep: ep, laddr: dst, lport: lport, raddr: ra, rport: rp, peer: p})
		w.Probes["tcp_connections"]++
	}
	w.Settle()
}

func dmPayload(seed uint64, id int) []byte {
	n := 8 + id%40
	b := make([]byte, n)
	for i := range b {
		b[i] = byte(sim.Mix(seed^uint64(id)<<20^uint64(i)) >> 7)
	}
	b[0], b[1], b[2], b[3] = byte(id>>24), byte(id>>16), byte(id>>8), byte(id)
	return b
}

// inject sends one packet and then reads every open socket.
func (w *dmWorld) inject(isTCP bool, nic, di, pi, ri int) {
	dst, dport := dmLocal[1+di%4], dmPorts[pi%3]
	src, sport := dmRAddr[ri%3], dmRPort[ri%3]
	w.npkt++
	payload := dmPayload(w.seed, w.npkt)
	link := w.S.Link
	if nic == 1 {
		link = w.link2
	}
	w.Take()
	owned := w.owned(nic, dst)
	win := w.winner(isTCP, dst, dport, src, sport)
	if !owned {
		win = nil
	}
	var seg []byte
	if isTCP {
		seq, ack := uint32(sim.Mix(uint64(w.npkt))), uint32(12345)
		if win != nil && win.peer != nil {
			seq, ack = win.peer.SndNxt, win.peer.RcvNxt
		}
		seg = codec.EncodeTCP([]byte(src), []byte(dst), &codec.TCPSeg{SrcPort: sport, DstPort: dport, Seq: seq, Ack: ack, Flags: codec.FlagACK | codec.FlagPSH, Window: 65535, Payload: payload})
		if win != nil && win.peer != nil {
			win.peer.SndNxt += uint32(len(payload))
		}
	} else {
		seg = codec.EncodeUDP([]byte(src), []byte(dst), sport, dport, payload)
	}
	proto := uint8(codec.ProtoUDP)
	if isTCP {
		proto = codec.ProtoTCP
	}
	w.ipid++
	w.Inject(link, ipv4.ProtocolNumber, codec.IPv4([]byte(src), []byte(dst), proto, w.ipid, 64, false, false, 0, seg), "", "", w.npkt%3)
	w.Probes["packets_injected"]++
	if !owned {
		w.Probes["to_address_not_owned"]++
	}
	// read every open socket
	for i, s := range w.socks {
		if s.closed || s.listener {
			continue
		}
		var from tcpip.FullAddress
		v, _, err := s.ep.Read(&from)
		if err != nil {
			if s == win && (!isTCP || s.peer != nil) {
				w.Fail("not-delivered", "", "packet #%d (tcp=%v) to % x:%d from % x:%d on NIC %d should reach socket %d (bound % x:%d, remote % x:%d) but that socket has nothing to read (%v)", w.npkt, isTCP, []byte(dst), dport, []byte(src), sport, nic+1, i, []byte(s.laddr), s.lport, []byte(s.raddr), s.rport, err)
			}
			continue
		}
		if s != win {
			why := "it is not the most specific match"
			if !owned {
				why = "the destination address is not assigned to the receiving interface"
			} else if win == nil {
				why = "no socket matches"
			}
			w.Fail("delivered-to-wrong-socket", "", "packet #%d (tcp=%v) to % x:%d from % x:%d on NIC %d was delivered to socket %d (bound % x:%d, remote % x:%d): %s", w.npkt, isTCP, []byte(dst), dport, []byte(src), sport, nic+1, i, []byte(s.laddr), s.lport, []byte(s.raddr), s.rport, why)
			continue
		}
		if !bytes.Equal(v, payload) {
			w.Fail("payload-altered", "", "socket %d read %d bytes that differ from packet #%d's payload", i, len(v), w.npkt)
		}
		if !isTCP && (from.Addr != src || from.Port != sport) {
			w.Fail("wrong-sender", "", "packet #%d came from % x:%d, Read reported % x:%d", w.npkt, []byte(src), sport, []byte(from.Addr), from.Port)
		}
		w.Probes["delivered_to_winner"]++
		if _, _, err := s.ep.Read(nil); err == nil {
			w.Fail("delivered-twice", "", "packet #%d was readable twice on socket %d", w.npkt, i)
		}
	}
	// replies
	frames := w.Take()
	if isTCP {
		// a connection the application has closed still occupies its 4-tuple while
		// the closing exchange runs: what answers a segment for it is not asserted
		for _, s := range w.socks {
			if s.closed && s.tcp && !s.listener && s.laddr == dst && s.lport == dport && s.raddr == src && s.rport == sport {
				w.Probes["segment_for_closing_connection"]++
				return
			}
		}
	}
	nrst := 0
	for _, d := range frames {
		if d.TCP != nil && d.TCP.Flags&codec.FlagRST != 0 {
			nrst++
		}
	}
	if isTCP {
		switch {
		case !owned && nrst > 0:
			w.Fail("reset-for-foreign-address", "", "TCP segment to % x (not assigned to NIC %d) drew a reset", []byte(dst), nic+1)
		case owned && win == nil && nrst != 1:
			w.Fail("stray-not-reset", "", "TCP segment #%d to % x:%d from % x:%d matches no socket and must draw exactly one reset, got %d", w.npkt, []byte(dst), dport, []byte(src), sport, nrst)
		case owned && win != nil && win.peer != nil && nrst > 0:
			w.Fail("reset-on-established", "", "in-window data for an established connection drew a reset")
		}
		if owned && win == nil {
			w.Probes["tcp_no_match_reset"]++
		}
		if win != nil && win.peer != nil {
			win.peer.Mine(frames)
		}
	}
}

func (w *dmWorld) apply(s Step) {
	switch s.Op {
	case "open":
		w.open(s.A, s.B, s.C, int(s.D))
	case "close":
		if s.A >= 0 && s.A < len(w.socks) && !w.socks[s.A].closed {
			w.socks[s.A].ep.Close()
			w.socks[s.A].closed = true
			w.Settle()
			w.Take()
		}
	case "udp":
		w.inject(false, s.A, s.B, s.C, int(s.D))
	case "tcp":
		w.inject(true, s.A, s.B, s.C, int(s.D))
	case "adv":
		w.Advance(time.Duration(s.D))
		w.Take()
	}
}

func (w *dmWorld) next() Step {
	r := w.Rng
	switch r.Pick(6, 1, 10, 0, 1) {
	case 0:
		return Step{Op: "open", A: r.Pick(4, 3, 3, 3), B: r.Intn(4), C: r.Intn(3), D: int64(r.Intn(3))}
	case 1:
		if len(w.socks) > 0 {
			return Step{Op: "close", A: r.Intn(len(w.socks))}
		}
		return Step{Op: "open", A: 0, B: r.Intn(4), C: r.Intn(3)}
	case 2, 3:
		op := "udp"
		if r.Chance(0.35) {
			op = "tcp"
		}
		st := Step{Op: op, A: r.Pick(5, 1), B: r.Intn(4), C: r.Intn(3), D: int64(r.Intn(3))}
		// most packets are aimed at (or just beside) an open socket
		if len(w.socks) > 0 && r.Chance(0.7) {
			s := w.socks[r.Intn(len(w.socks))]
			if s.tcp {
				st.Op = "tcp"
			} else {
				st.Op = "udp"
			}
			for i, a := range dmLocal[1:] {
				if a == s.laddr {
					st.B = i
					st.A = dmNICof[i+1]
				}
			}
			for i, p := range dmPorts {
				if p == s.lport {
					st.C = i
				}
			}
			for i := range dmRAddr {
				if dmRAddr[i] == s.raddr && dmRPort[i] == s.rport {
					st.D = int64(i)
				}
			}
			if st.A < 0 {
				st.A = 0
			}
			switch r.Pick(6, 1, 1, 1, 1) { // perturb one coordinate
			case 1:
				st.B = r.Intn(4)
			case 2:
				st.C = r.Intn(3)
			case 3:
				st.D = int64(r.Intn(3))
			case 4:
				st.A = 1 - st.A
			}
		}
		return st
	}
	return Step{Op: "adv", D: int64(time.Duration(r.Range(1, 500)) * time.Millisecond)}
}

func (scDemux) Run(t *testing.T, prop string, seed uint64, cfgRaw json.RawMessage, steps []Step, tape []byte, trace bool) *RunOut {
	var cfg DemuxCfg
	json.Unmarshal(cfgRaw, &cfg)
	o := &RunOut{Cfg: cfgRaw}
	bubble(t, func() {
		w := &dmWorld{PeerWorld: NewPeerWorld(seed, 1500, NodeOpts{}), cfg: cfg}
		defer w.Close()
		w.TraceOn = trace
		w.YieldP = cfg.YieldP
		s := w.S.S
		must(s.AddAddress(1, ipv4.ProtocolNumber, dmLocal[2]), "second address")
		w.link2 = w.AddLink("S2", 1500, 0, "", -1)
		must(s.CreateNIC(2, w.link2.id), "NIC 2")
		must(s.AddAddress(2, ipv4.ProtocolNumber, dmLocal[3]), "NIC2 address")
		s.SetRouteTable([]tcpip.Route{
			{Destination: "\x0a\x01\x00\x00", Mask: "\xff\xff\x00\x00", NIC: 2},
			{Destination: "\x00\x00\x00\x00", Mask: "\x00\x00\x00\x00", NIC: 1},
		})
		if cfg.Promisc {
			must(s.SetPromiscuousMode(1, true), "promiscuous")
		}
		if cfg.Subnet {
			sn, err := tcpip.NewSubnet("\x0a\x00\x00\x00", "\xff\xff\xff\x00")
			if err == nil {
				must(s.AddSubnet(1, ipv4.ProtocolNumber, sn), "AddSubnet")
			}
		}
		w.Settle()
		if steps == nil {
			for i := 0; i < cfg.MaxSteps && w.Viol == nil; i++ {
				st := w.next()
				w.Steps = append(w.Steps, st)
				w.apply(st)
				w.NSteps++
			}
		} else {
			for _, st := range steps {
				w.apply(st)
				w.NSteps++
				if w.Viol != nil {
					break
				}
			}
			w.Steps = steps
		}
		w.OnEmit = nil
		for _, sk := range w.socks {
			if !sk.closed {
				sk.ep.Close()
			}
		}
		w.Advance(70 * time.Second)
		finish(w.World, o)
		if w.Replay {
			o.Tape = tape
		}
		o.Nontrivial = w.Probes["delivered_to_winner"] > 0
	})
	return o
}

package netsim

import (
	"bytes"
	"encoding/json"
	"runtime"
	"testing"
	"time"

	"verif/netsim/codec"
	"verif/sim"

	"github.com/brewlin/net-protocol/pkg/buffer"
	"github.com/brewlin/net-protocol/pkg/verifhook"
	"github.com/brewlin/net-protocol/pkg/waiter"
	tcpip "github.com/brewlin/net-protocol/protocol"
	"github.com/brewlin/net-protocol/protocol/network/ipv4"
	"github.com/brewlin/net-protocol/protocol/network/ipv6"
	"github.com/brewlin/net-protocol/protocol/transport/tcp"
	"github.com/brewlin/net-protocol/protocol/transport/udp"
	"github.com/brewlin/net-protocol/stack"
)

// scDemux: C09 - inbound packets reach exactly the socket they are addressed
// to, or nobody. One stack with two NICs and three local addresses, a small
// universe of ports and remote peers, UDP sockets bound to wildcard/specific
// addresses or connected, TCP listeners and established connections; after
// every injected packet every open socket is read.
type scDemux struct{}

func init() {
	scenarios["demux"] = scDemux{}
	propScenario["C09"] = "demux"
}

type DemuxCfg struct {
	Promisc  bool    `json:"promiscuous"`
	Subnet   bool    `json:"subnet"`
	MaxSteps int     `json:"max_steps"`
	YieldP   float64 `json:"yield_p"`
	Binds    bool    `json:"mostly_bind_and_close,omitempty"` // C10: the workload is mostly open/close/reopen
	Spoof    bool    `json:"spoofing,omitempty"`              // NIC 1 may send from addresses it does not own - which says nothing about what it receives
}

func (scDemux) GenCfg(rng *sim.Rand, tier, prop, variant string) json.RawMessage {
	c := DemuxCfg{Promisc: rng.Chance(0.15), Subnet: rng.Chance(0.15), MaxSteps: rng.Range(10, 80)}
	if rng.Chance(0.4) {
		c.YieldP = []float64{0.05, 0.3}[rng.Intn(2)]
	}
	c.Binds = prop == "C10"
	c.Spoof = rng.Chance(0.15)
	b, _ := json.Marshal(c)
	return b
}

var (
	dmLocal = []tcpip.Address{"", A4, "\x0a\x00\x00\x05", "\x0a\x01\x00\x01", "\x0a\x00\x00\x4d"} // wildcard, NIC1, NIC1, NIC2, unassigned (in NIC1's subnet)
	dmNICof = []int{-1, 0, 0, 1, -1}
	dmPorts = []uint16{5000, 5001, 5002, 5003} // 5003 is used only by directly registered endpoints
	dmRAddr = []tcpip.Address{B4, B4, "\x0a\x00\x00\x03"}
	dmRPort = []uint16{9000, 9001, 9000}
)

type dmSock struct {
	tcp        bool
	listener   bool
	ep         tcpip.Endpoint
	laddr      tcpip.Address // "" = wildcard
	lport      uint16
	raddr      tcpip.Address // "" = not connected
	rport      uint16
	closed     bool
	peer       *TCPPeer // established TCP connection: the scripted peer's state
	sent       int64
	resAddr    tcpip.Address // address its port reservation was made for ("" = wildcard)
	reserves   bool          // holds a port reservation (UDP sockets, TCP listeners)
	nic        int           // 0: any interface; k: bound or connected through NIC k only
	loose      bool          // bound to the wildcard address, then connected: whether it still hears other local addresses is not asserted
	activeWild bool          // a TCP connection opened actively from a socket bound to the wildcard address
	protos     int           // network protocols its reservation covers: 1 IPv4, 3 IPv4+IPv6 (dual-stack IPv6 socket); 0 means 1
	fake       *fakeEP       // registered directly with the stack's demultiplexer (no socket, no port reservation)
	groups     []dmMember    // multicast groups this UDP socket has joined (and not left)
	v6ep       bool          // the endpoint is an IPv6 (dual-stack) one, whatever its binding covers
	closing    bool          // an actively opened connection the application has closed, whose closing exchange the peer has completed
	boundOnly  bool          // a TCP socket that is bound (holds its port) but neither listens nor is connected: its Connect was refused
	reopen     *Step         // the step that opened this actively opened connection (the same open again is refused locally)
}

// dmMember: a multicast group joined through an interface (0-based). Joining assigns the group address to
// that interface - for as long as the membership lasts, i.e. until it is dropped or the socket is closed.
type dmMember struct {
	nic int
	g   tcpip.Address
}

var dmGroups = []tcpip.Address{"\xe0\x00\x01\x02", "\xe0\x00\x01\x03", "\xe0\x00\x01\x04"}

func (w *dmWorld) memberOf(nic int, g tcpip.Address) *dmSock {
	for _, s := range w.socks {
		if s.closed {
			continue
		}
		for _, m := range s.groups {
			if m.nic == nic && m.g == g {
				return s
			}
		}
	}
	return nil
}

// fakeEP is a transport endpoint of the harness registered directly through
// Stack.RegisterTransportEndpoint: it lets wildcard and specific bindings of
// one port coexist, which the port manager forbids for sockets.
type fakeEP struct {
	got [][]byte
}

func (f *fakeEP) HandlePacket(r *stack.Route, id stack.TransportEndpointID, vv buffer.VectorisedView) {
	v := vv.ToView()
	if len(v) >= 8 {
		f.got = append(f.got, append([]byte(nil), v[8:]...))
	}
}

func (f *fakeEP) HandleControlPacket(id stack.TransportEndpointID, typ stack.ControlType, extra uint32, vv buffer.VectorisedView) {
}

type dmWorld struct {
	*PeerWorld
	addrOff    bool      // the second address of NIC 1 (dmLocal[2]) is currently removed
	nextOffset int       // when > 0: where the next ephemeral port search starts (offset into [16000, 65535])
	users      []*dmSock // ... but sockets that held a route from it when it was removed keep it alive until they are gone (reference-counted, documented)
	prop       string
	cfg        DemuxCfg
	link2      *Link
	subnetOff  bool // (Subnet configurations) the subnet is currently removed from NIC 1
	socks      []*dmSock
	npkt       int
}

func (w *dmWorld) owned(nic int, dst tcpip.Address) bool {
	if len(dst) == 4 && dst[0] == 0xe0 {
		return w.memberOf(nic, dst) != nil || (nic == 0 && w.cfg.Promisc)
	}
	for i, a := range dmLocal {
		if i > 0 && a == dst && dmNICof[i] == nic {
			if i == 2 && w.addrOff {
				break // removed for now
			}
			return true
		}
	}
	if nic == 0 && w.cfg.Promisc {
		return true
	}
	if nic == 0 && w.cfg.Subnet && !w.subnetOff && len(dst) == 4 && dst[0] == 10 && dst[1] == 0 && dst[2] == 0 {
		return true
	}
	return false
}

// lingering: a removed address is still referenced by a socket that used it at removal time
// (a closed TCP connection may still be winding down: it counts for the rest of the run).
func (w *dmWorld) lingering() bool {
	for _, sk := range w.users {
		if !sk.closed || sk.tcp {
			return true
		}
	}
	return false
}

// winner is the reference function written from the statement.
func (w *dmWorld) winner(isTCP bool, nic int, dst tcpip.Address, dport uint16, src tcpip.Address, sport uint16) *dmSock {
	var best *dmSock
	score := -1
	for _, s := range w.socks {
		if s.closed || s.tcp != isTCP || s.lport != dport || s.boundOnly {
			continue
		}
		if s.nic != 0 && s.nic != nic+1 {
			continue // tied to another interface
		}
		if s.laddr != "" && s.laddr != dst {
			continue
		}
		if s.raddr != "" && (s.raddr != src || s.rport != sport) {
			continue
		}
		sc := 0
		if s.raddr != "" {
			sc += 2 // a connected socket before a listener or bound socket
		}
		if s.laddr != "" {
			sc++ // a specific local address before the wildcard
		}
		if sc > score {
			best, score = s, sc
		}
	}
	return best
}

func (w *dmWorld) conflict(isTCP bool, laddr tcpip.Address, lport uint16) bool {
	for _, s := range w.socks {
		// (every socket of this world reserves for IPv4 at least, so the protocol sets always intersect)
		if !s.closed && s.reserves && s.tcp == isTCP && s.lport == lport && (s.resAddr == laddr || s.resAddr == "" || laddr == "") {
			return true
		}
	}
	return false
}

// bindResult judges the outcome of a Bind(+Listen) against the reservations
// currently held (C10, socket-level clause).
func (w *dmWorld) bindResult(isTCP bool, laddr tcpip.Address, lport uint16, conflict bool, err *tcpip.Error) {
	switch {
	case err != nil && !conflict:
		w.Probes["bind_failed_without_conflict"]++
		if w.prop == "C10" {
			w.Fail("free-port-refused", "", "binding (tcp=%v) % x:%d failed with %q although no open socket holds a conflicting reservation (every earlier holder was closed)", isTCP, []byte(laddr), lport, err.String())
		}
	case err == nil && conflict:
		w.Probes["bind_succeeded_despite_conflict"]++
		if w.prop == "C10" {
			w.Fail("conflicting-reservations", "", "binding (tcp=%v) % x:%d succeeded although an open socket holds a conflicting reservation of that port", isTCP, []byte(laddr), lport)
		}
	case err != nil:
		w.Probes["bind_refused_on_conflict"]++
	default:
		w.Probes["bind_succeeded"]++
	}
}

// demuxFail raises a delivery violation (C09 only: under C10 the same world is
// driven for its bind/close outcomes).
func (w *dmWorld) demuxFail(class, format string, a ...interface{}) {
	if w.prop == "C10" {
		w.Probes["demux_anomaly_not_judged_under_C10"]++
		return
	}
	w.Fail(class, "", format, a...)
}

// nicOf is the NIC id (1-based) owning local address index ai, or 0 for the wildcard.
func nicOf(laddr tcpip.Address) tcpip.NICID {
	for i, a := range dmLocal {
		if i > 0 && a == laddr && dmNICof[i] >= 0 {
			return tcpip.NICID(dmNICof[i] + 1)
		}
	}
	return 0
}

// open opens one socket. mode bits: 1 = bind through the owning interface
// explicitly, 2 = connect through an explicit interface, 4 = keep a wildcard
// bind when connecting.
func (w *dmWorld) open(kind, ai, pi, ri, mode int) *dmSock {
	if len(w.socks) >= 12 {
		return nil
	}
	if kind == 5 {
		w.activeOpen(ai, pi, ri, mode)
		return nil
	}
	port := dmPorts[pi%3]
	if mode&64 != 0 && kind <= 2 {
		port = dmHighPort // a port inside the ephemeral range: active opens must steer clear of it while it is held
	}
	return w.openAt(kind, dmLocal[ai%4], port, ri, mode, ai)
}

const dmHighPort = 20000

// activeOpen: a TCP socket of the stack connects to a peer - unbound (the stack picks an
// ephemeral port, the search starting where the simulator says), or bound first to one of the
// scenario's ports, as an IPv4 socket or as a dual-stack IPv6 socket naming its IPv4 peer by the
// mapped address. The peer refuses; the socket is closed. What the socket reserved must be
// exclusive while it lasts and free afterwards (later binds are judged as always).
func (w *dmWorld) activeOpen(ai, pi, ri, mode int) {
	dual := mode&32 != 0
	netw := ipv4.ProtocolNumber
	if dual {
		netw = ipv6.ProtocolNumber
	}
	ep, err := w.S.S.NewEndpoint(tcp.ProtocolNumber, netw, &waiter.Queue{})
	must(err, "tcp endpoint")
	kept := false
	defer func() {
		if !kept {
			ep.Close()
		}
		w.Settle()
		w.Take()
	}()
	wild := false
	bound := mode&1 != 0
	keep := bound && !dual && mode&4 != 0 // the peer accepts: the connection stays, as one more socket of the scenario
	var lport uint16
	if bound {
		lport = []uint16{dmPorts[0], dmPorts[1], dmPorts[2], dmHighPort}[pi%4]
		laddr := tcpip.Address("")
		if !dual {
			laddr = dmLocal[ai%3] // wildcard or one of NIC 1's addresses (the peers are reached through NIC 1)
		}
		if w.addrOff && laddr == dmLocal[2] {
			return
		}
		wild = laddr == ""
		conflict := w.conflict(true, laddr, lport)
		e := ep.Bind(tcpip.FullAddress{Addr: laddr, Port: lport}, nil)
		w.bindResult(true, laddr, lport, conflict, e)
		if e != nil {
			return
		}
	} else if mode&2 != 0 {
		w.nextOffset = dmHighPort - 16000 // the search for an ephemeral port starts exactly at the high port
	}
	ra, rp := dmRAddr[ri%3], uint16(9100+ri%3)
	if keep {
		rp = dmRPort[ri%3] // inside the universe the injected segments are drawn from
	}
	w.Take()
	e := ep.Connect(tcpip.FullAddress{Addr: mapped(ra, dual), Port: rp})
	w.Settle()
	w.Probes["tcp_active_opens"]++
	if e != tcpip.ErrConnectStarted {
		w.Probes["tcp_active_open_refused_locally"]++
		if bound && !dual && len(w.socks) < 12 {
			// the socket stays open: it is still bound, so it still holds its port
			kept = true
			w.socks = append(w.socks, &dmSock{tcp: true, ep: ep, laddr: dmLocal[ai%3], lport: lport, resAddr: dmLocal[ai%3], reserves: true, boundOnly: true})
			w.Probes["tcp_sockets_left_bound_after_a_refused_connect"]++
		}
		return
	}
	for _, d := range w.Take() {
		if d.TCP == nil || d.TCP.Flags&codec.FlagSYN == 0 || d.TCP.DstPort != rp {
			continue
		}
		sp := d.TCP.SrcPort
		if bound && sp != lport {
			w.Fail("conflicting-reservations", "", "a TCP socket bound to port %d connected from port %d", lport, sp)
		}
		if !bound {
			if sp < 16000 {
				w.Fail("ephemeral-port-out-of-range", "", "an unbound TCP socket connected from port %d, outside [16000, 65535]", sp)
			}
			if w.conflict(true, tcpip.Address(d.IP.Src), sp) {
				w.Probes["bind_succeeded_despite_conflict"]++
				if w.prop == "C10" {
					w.Fail("conflicting-reservations", "", "an unbound TCP socket was given ephemeral port %d for its connection although an open socket holds a reservation of that port", sp)
				}
			} else {
				w.Probes["ephemeral_port_checked"]++
			}
		}
		if keep {
			la := tcpip.Address(d.IP.Src)
			dupe := false
			for _, o := range w.socks {
				if o.tcp && !o.listener && o.laddr == la && o.lport == sp && o.raddr == ra && o.rport == rp {
					dupe = true // (a connection with this 4-tuple exists or is winding down)
				}
			}
			if !dupe {
				p := w.NewTCPPeer(false, rp, sp, uint32(sim.Mix(w.seed^uint64(len(w.socks))<<8)))
				p.PAddr, p.SAddr = ra, la
				p.StackISS, p.HaveISS, p.RcvNxt = d.TCP.Seq, true, d.TCP.Seq+1
				p.Send(codec.FlagSYN|codec.FlagACK, p.ISS, p.RcvNxt, 65535, nil, nil)
				p.SndNxt = p.ISS + 1
				p.Mine(w.Take())
				if _, e := ep.GetRemoteAddress(); e == nil {
					kept = true
					w.socks = append(w.socks, &dmSock{tcp: true, ep: ep, laddr: la, lport: sp, raddr: ra, rport: rp, peer: p, activeWild: wild,
						reopen: &Step{Op: "open", A: 5, B: ai, C: pi, D: int64(ri%3 + 3*mode)}})
					w.Probes["tcp_connections_opened_actively"]++
					return
				}
			}
		}
		// the peer refuses
		rst := codec.EncodeTCP(d.IP.Dst, d.IP.Src, &codec.TCPSeg{SrcPort: rp, DstPort: sp, Seq: 0, Ack: d.TCP.Seq + 1, Flags: codec.FlagRST | codec.FlagACK})
		w.ipid++
		w.Inject(w.S.Link, ipv4.ProtocolNumber, codec.IPv4(d.IP.Dst, d.IP.Src, codec.ProtoTCP, w.ipid, 64, false, false, 0, rst), "", "", 0)
		break
	}
}

func (w *dmWorld) openAt(kind int, laddr tcpip.Address, lport uint16, ri, mode, ai int) *dmSock {
	var made *dmSock
	switch kind {
	case 0, 1: // UDP bound / connected
		if kind == 1 && laddr == "" && mode&4 == 0 {
			laddr = dmLocal[1]
		}
		dual := mode&32 != 0
		netw := ipv4.ProtocolNumber
		if dual {
			// an IPv6 socket bound to the wildcard address serves IPv4 as well: its reservation covers both protocols
			netw, laddr, mode = ipv6.ProtocolNumber, "", mode&^1|4
		}
		ep, err := w.S.S.NewEndpoint(udp.ProtocolNumber, netw, &waiter.Queue{})
		must(err, "udp endpoint")
		if mode&16 != 0 {
			// a bind through an interface that does not exist fails - and must leave nothing behind
			if e := ep.Bind(tcpip.FullAddress{NIC: 99, Addr: laddr, Port: lport}, nil); e == nil {
				w.Probes["bind_to_unknown_interface_succeeded"]++
			} else {
				w.Probes["bind_to_unknown_interface_refused"]++
			}
			ep.Close()
			return nil
		}
		var bnic tcpip.NICID
		if mode&1 != 0 {
			bnic = nicOf(laddr)
			if bnic == 0 {
				bnic = tcpip.NICID(1 + ai%2)
			}
		}
		conflict := w.conflict(false, laddr, lport)
		baddr := laddr
		v4only := dual && kind == 0 && mode&128 != 0
		if v4only {
			// an IPv6 socket bound to the IPv4-mapped wildcard ::ffff:0.0.0.0: the IPv4 wildcard and nothing else
			baddr = tcpip.Address("\x00\x00\x00\x00\x00\x00\x00\x00\x00\x00\xff\xff\x00\x00\x00\x00")
		}
		e := ep.Bind(tcpip.FullAddress{NIC: bnic, Addr: baddr, Port: lport}, nil)
		if w.addrOff && laddr == dmLocal[2] {
			// binding to an address that has been removed: refused, unless it still lingers - not judged either way
			w.Probes["bind_to_removed_address"]++
			if e == nil && !w.lingering() {
				w.demuxFail("bound-to-removed-address", "binding to % x succeeded although the address was removed and nothing uses it any more", []byte(laddr))
			}
		} else {
			w.bindResult(false, laddr, lport, conflict, e)
		}
		if e != nil {
			ep.Close()
			return nil
		}
		s := &dmSock{ep: ep, laddr: laddr, lport: lport, resAddr: laddr, reserves: true, nic: int(bnic), protos: 1}
		if dual {
			s.protos = 3
			w.Probes["dual_stack_sockets"]++
		}
		s.v6ep = dual
		if v4only {
			s.protos = 1
			w.Probes["sockets_bound_to_the_mapped_ipv4_wildcard"]++
		}
		if bnic != 0 {
			w.Probes["sockets_bound_to_an_interface"]++
		}
		if kind == 1 {
			ra, rp := dmRAddr[ri%3], dmRPort[ri%3]
			var cnic tcpip.NICID
			if mode&2 != 0 {
				cnic = 1
			}
			if laddr == dmLocal[3] || bnic == 2 {
				// NIC2 cannot reach the 10.0.0.x peers through the route table: keep it bound only
			} else if e := ep.Connect(tcpip.FullAddress{NIC: cnic, Addr: mapped(ra, dual), Port: rp}); e == nil {
				s.raddr, s.rport = ra, rp
				if cnic != 0 {
					s.nic = int(cnic)
					w.Probes["sockets_connected_through_an_interface"]++
				}
				if laddr == "" {
					// the connected identity takes the route's source address
					s.laddr, s.loose = dmLocal[1], true
					if s.nic == 0 {
						s.nic = 1 // the route to the peer leaves through NIC 1
					}
					w.Probes["wildcard_bound_then_connected"]++
				}
			}
		}
		if w.addrOff && laddr == dmLocal[2] {
			w.users = append(w.users, s) // bound while the address lingered: it may keep it alive in turn
		}
		w.socks = append(w.socks, s)
		made = s
	case 2: // TCP listener
		netw, baddr := ipv4.ProtocolNumber, laddr
		if mode&32 != 0 {
			// an IPv6 socket bound to the IPv4-mapped form of the address (::ffff:a.b.c.d, or ::ffff:0.0.0.0 for the
			// wildcard): it listens on IPv4 only and reserves exactly what the IPv4 socket bound to a.b.c.d would
			netw, baddr = ipv6.ProtocolNumber, mapped(laddr, true)
			if laddr == "" {
				baddr = tcpip.Address("\x00\x00\x00\x00\x00\x00\x00\x00\x00\x00\xff\xff\x00\x00\x00\x00")
			}
			w.Probes["tcp_listeners_bound_to_a_mapped_ipv4_address"]++
		}
		ep, err := w.S.S.NewEndpoint(tcp.ProtocolNumber, netw, &waiter.Queue{})
		must(err, "tcp endpoint")
		conflict := w.conflict(true, laddr, lport)
		e := ep.Bind(tcpip.FullAddress{Addr: baddr, Port: lport}, nil)
		if e == nil {
			e = ep.Listen(4)
		}
		if w.addrOff && laddr == dmLocal[2] {
			w.Probes["bind_to_removed_address"]++
		} else {
			w.bindResult(true, laddr, lport, conflict, e)
		}
		if e != nil {
			ep.Close()
			return nil
		}
		made = &dmSock{tcp: true, listener: true, ep: ep, laddr: laddr, lport: lport, resAddr: laddr, reserves: true}
		w.socks = append(w.socks, made)
	case 3: // TCP connection through a real handshake with a matching listener
		dst := dmLocal[1+ai%2]
		if laddr != "" && nicOf(laddr) == 1 {
			dst = laddr
		}
		ra, rp := dmRAddr[ri%3], dmRPort[ri%3]
		l := w.winner(true, 0, dst, lport, ra, rp)
		if l == nil || !l.listener || !w.owned(0, dst) {
			return nil
		}
		for _, s := range w.socks {
			if s.closed && s.tcp && !s.listener && s.laddr == dst && s.lport == lport && s.raddr == ra && s.rport == rp {
				return nil // the 4-tuple may still belong to a connection that is winding down
			}
		}
		p := w.NewTCPPeer(false, rp, lport, uint32(sim.Mix(w.seed^uint64(len(w.socks)))))
		p.PAddr, p.SAddr = ra, dst
		w.Take()
		if (ri+ai+len(w.socks))%4 == 0 {
			// the SYN and an immediate duplicate reach the listener back to back
			p.NoWait = true
			p.Send(codec.FlagSYN, p.ISS, 0, 65535, nil, nil)
			p.Send(codec.FlagSYN, p.ISS, 0, 65535, nil, nil)
			p.NoWait = false
			w.Settle()
			w.Probes["duplicate_syn_back_to_back"]++
		} else {
			p.Send(codec.FlagSYN, p.ISS, 0, 65535, nil, nil)
		}
		mine := p.Mine(w.Take())
		if len(mine) == 0 || mine[0].Flags&codec.FlagSYN == 0 {
			fl := -1
			if len(mine) > 0 {
				fl = int(mine[0].Flags)
			}
			w.demuxFail("listener-unreachable", "SYN to % x:%d from % x:%d, where an open listener (bound % x:%d) is the most specific match, was not answered with SYN|ACK (answer flags %#x, -1 = none)", []byte(dst), lport, []byte(ra), rp, []byte(l.laddr), l.lport, fl)
			return nil
		}
		p.SndNxt = p.ISS + 1
		p.Send(codec.FlagACK, p.SndNxt, p.RcvNxt, 65535, nil, nil)
		p.Mine(w.Take())
		ep, _, e := l.ep.Accept()
		if e != nil {
			w.Probes["handshake_done_but_accept_failed"]++
			return nil
		}
		made = &dmSock{tcp: true, ep: ep, laddr: dst, lport: lport, raddr: ra, rport: rp, peer: p}
		w.socks = append(w.socks, made)
		w.Probes["tcp_connections"]++
	case 4: // an endpoint registered directly with the demultiplexer on port 5003, any of the four binding shapes
		if mode&8 != 0 {
			// (only generated for this kind) keep the shape's local address wildcard
			laddr = ""
		}
		id := stack.TransportEndpointID{LocalPort: dmPorts[3], LocalAddress: laddr}
		s := &dmSock{laddr: laddr, lport: dmPorts[3], fake: &fakeEP{}}
		if mode&2 != 0 {
			s.raddr, s.rport = dmRAddr[ri%3], dmRPort[ri%3]
			id.RemoteAddress, id.RemotePort = s.raddr, s.rport
		}
		dup := false
		for _, o := range w.socks {
			if !o.closed && o.fake != nil && o.laddr == s.laddr && o.raddr == s.raddr && o.rport == s.rport {
				dup = true
			}
		}
		e := w.S.S.RegisterTransportEndpoint(0, []tcpip.NetworkProtocolNumber{ipv4.ProtocolNumber}, udp.ProtocolNumber, id, s.fake)
		switch {
		case e == nil && dup:
			w.demuxFail("duplicate-registration-accepted", "a second endpoint was registered under the identity (% x:%d, % x:%d) already taken by an open one", []byte(s.laddr), s.lport, []byte(s.raddr), s.rport)
		case e != nil && !dup:
			w.demuxFail("registration-refused", "registering an endpoint under the free identity (% x:%d, % x:%d) failed: %s", []byte(s.laddr), s.lport, []byte(s.raddr), s.rport, e.String())
		}
		if e != nil {
			return nil
		}
		w.Probes["directly_registered_endpoints"]++
		w.socks = append(w.socks, s)
		made = s
	}
	return made
}

// mapped returns the IPv4-mapped IPv6 form of a, which is how a dual-stack socket names an IPv4 peer.
func mapped(a tcpip.Address, dual bool) tcpip.Address {
	if !dual {
		return a
	}
	return tcpip.Address("\x00\x00\x00\x00\x00\x00\x00\x00\x00\x00\xff\xff") + a
}

func (w *dmWorld) closeSock(s *dmSock) {
	if s.closed {
		return
	}
	s.closed = true
	if s.fake != nil {
		id := stack.TransportEndpointID{LocalPort: s.lport, LocalAddress: s.laddr, RemoteAddress: s.raddr, RemotePort: s.rport}
		w.S.S.UnregisterTransportEndpoint(0, []tcpip.NetworkProtocolNumber{ipv4.ProtocolNumber}, udp.ProtocolNumber, id)
		return
	}
	s.ep.Close()
}

func dmPayload(seed uint64, id int) []byte {
	n := 8 + id%40
	b := make([]byte, n)
	for i := range b {
		b[i] = byte(sim.Mix(seed^uint64(id)<<20^uint64(i)) >> 7)
	}
	b[0], b[1], b[2], b[3] = byte(id>>24), byte(id>>16), byte(id>>8), byte(id)
	return b
}

// inject sends one packet and then reads every open socket.
func (w *dmWorld) inject(isTCP bool, nic, di, pi, ri int) {
	dst, dport := dmLocal[1+di%4], dmPorts[pi%4]
	if di >= 8 && !isTCP {
		dst = dmGroups[(di-8)%len(dmGroups)]
		w.Probes["packets_to_multicast_groups"]++
	}
	src, sport := dmRAddr[ri%3], dmRPort[ri%3]
	w.npkt++
	payload := dmPayload(w.seed, w.npkt)
	link := w.S.Link
	if nic == 1 {
		link = w.link2
	}
	w.Take()
	owned := w.owned(nic, dst)
	win := w.winner(isTCP, nic, dst, dport, src, sport)
	if !owned {
		win = nil
	}
	// a socket bound to the wildcard address and then connected: whether it still
	// hears packets for its other local addresses is left open
	ambiguous := false
	if w.addrOff && w.lingering() && dst == dmLocal[2] {
		ambiguous = true
		w.Probes["packet_for_removed_but_referenced_address"]++
	}
	for _, s := range w.socks {
		if !s.closed && s.loose && !isTCP && s.lport == dport && s.raddr == src && s.rport == sport && dst != s.laddr {
			ambiguous = true
			w.Probes["packet_for_loosely_bound_connected_socket"]++
		}
	}
	var seg []byte
	if isTCP {
		seq, ack := uint32(sim.Mix(uint64(w.npkt))), uint32(12345)
		if win != nil && win.peer != nil {
			seq, ack = win.peer.SndNxt, win.peer.RcvNxt
		}
		seg = codec.EncodeTCP([]byte(src), []byte(dst), &codec.TCPSeg{SrcPort: sport, DstPort: dport, Seq: seq, Ack: ack, Flags: codec.FlagACK | codec.FlagPSH, Window: 65535, Payload: payload})
		if win != nil && win.peer != nil {
			win.peer.SndNxt += uint32(len(payload))
		}
	} else {
		seg = codec.EncodeUDP([]byte(src), []byte(dst), sport, dport, payload)
	}
	proto := uint8(codec.ProtoUDP)
	if isTCP {
		proto = codec.ProtoTCP
	}
	w.ipid++
	if w.npkt%9 == 4 {
		// the sender put IP options in front (record route, router alert): same packet, same addresses, same ports
		o := [][]byte{codec.OptRecordRoute(1), codec.OptRouterAlert(), codec.OptRecordRoute(2)}[w.npkt%3]
		w.Inject(link, ipv4.ProtocolNumber, codec.IPv4Opts([]byte(src), []byte(dst), proto, w.ipid, 64, false, false, 0, o, seg), "", "", w.npkt%3)
		w.Probes["packets_with_ip_options"]++
	} else {
		w.Inject(link, ipv4.ProtocolNumber, codec.IPv4([]byte(src), []byte(dst), proto, w.ipid, 64, false, false, 0, seg), "", "", w.npkt%3)
	}
	w.Probes["packets_injected"]++
	if !owned {
		w.Probes["to_address_not_owned"]++
	}
	// read every open socket
	for i, s := range w.socks {
		if s.closed || s.listener {
			continue
		}
		var from tcpip.FullAddress
		var v buffer.View
		var err *tcpip.Error
		if s.fake != nil {
			if len(s.fake.got) == 0 {
				err = tcpip.ErrWouldBlock
			} else {
				v, s.fake.got = s.fake.got[0], s.fake.got[1:]
				from = tcpip.FullAddress{Addr: src, Port: sport}
			}
		} else {
			v, _, err = s.ep.Read(&from)
		}
		if ambiguous {
			continue
		}
		if err != nil {
			if s == win && (!isTCP || s.peer != nil) {
				why := ""
				if s.activeWild {
					for _, o := range w.socks {
						if !o.closed && o.listener && o.laddr == dst && o.lport == dport {
							why = " [the connection was opened actively from a socket bound to the wildcard address, and a listener bound to exactly this address and port is open]"
						}
					}
				}
				w.demuxFail("not-delivered", "packet #%d (tcp=%v) to % x:%d from % x:%d on NIC %d should reach socket %d (bound % x:%d, remote % x:%d) but that socket has nothing to read (%v)%s", w.npkt, isTCP, []byte(dst), dport, []byte(src), sport, nic+1, i, []byte(s.laddr), s.lport, []byte(s.raddr), s.rport, err, why)
			}
			continue
		}
		if s != win {
			why := "it is not the most specific match"
			if !owned {
				why = "the destination address is not assigned to the receiving interface"
			} else if win == nil {
				why = "no socket matches"
			}
			w.demuxFail("delivered-to-wrong-socket", "packet #%d (tcp=%v) to % x:%d from % x:%d on NIC %d was delivered to socket %d (bound % x:%d, remote % x:%d): %s", w.npkt, isTCP, []byte(dst), dport, []byte(src), sport, nic+1, i, []byte(s.laddr), s.lport, []byte(s.raddr), s.rport, why)
			continue
		}
		if !bytes.Equal(v, payload) {
			w.demuxFail("payload-altered", "socket %d read %d bytes that differ from packet #%d's payload", i, len(v), w.npkt)
		}
		if !isTCP && (from.Addr != src || from.Port != sport) {
			w.demuxFail("wrong-sender", "packet #%d came from % x:%d, Read reported % x:%d", w.npkt, []byte(src), sport, []byte(from.Addr), from.Port)
		}
		w.Probes["delivered_to_winner"]++
		if s.fake != nil {
			if len(s.fake.got) > 0 {
				s.fake.got = nil
				w.demuxFail("delivered-twice", "packet #%d was handed twice to endpoint %d", w.npkt, i)
			}
		} else if _, _, err := s.ep.Read(nil); err == nil {
			w.demuxFail("delivered-twice", "packet #%d was readable twice on socket %d", w.npkt, i)
		}
	}
	// replies
	frames := w.Take()
	if ambiguous {
		return
	}
	if isTCP {
		// a connection the application has closed still occupies its 4-tuple while
		// the closing exchange runs: what answers a segment for it is not asserted
		for _, s := range w.socks {
			if s.closed && s.tcp && !s.listener && s.laddr == dst && s.lport == dport && s.raddr == src && s.rport == sport {
				w.Probes["segment_for_closing_connection"]++
				return
			}
		}
	}
	nrst := 0
	for _, d := range frames {
		if d.TCP != nil && d.TCP.Flags&codec.FlagRST != 0 {
			nrst++
		}
	}
	if isTCP {
		switch {
		case !owned && nrst > 0:
			w.demuxFail("reset-for-foreign-address", "TCP segment to % x (not assigned to NIC %d) drew a reset", []byte(dst), nic+1)
		case owned && win == nil && nrst != 1:
			w.demuxFail("stray-not-reset", "TCP segment #%d to % x:%d from % x:%d matches no socket and must draw exactly one reset, got %d", w.npkt, []byte(dst), dport, []byte(src), sport, nrst)
		case owned && win != nil && win.peer != nil && nrst > 0:
			w.demuxFail("reset-on-established", "in-window data for an established connection drew a reset")
		}
		if owned && win == nil {
			w.Probes["tcp_no_match_reset"]++
		}
		if win != nil && win.peer != nil {
			win.peer.Mine(frames)
		}
	}
}

func (w *dmWorld) apply(s Step) {
	switch s.Op {
	case "open":
		w.open(s.A, s.B, s.C, int(s.D)%3, int(s.D)/3)
		w.Settle()
	case "close":
		if s.A >= 0 && s.A < len(w.socks) && !w.socks[s.A].closed {
			sk := w.socks[s.A]
			w.Take()
			w.closeSock(sk)
			w.Settle()
			if sk.tcp && sk.peer != nil && !sk.listener && sk.fake == nil {
				// the application is done; the connection is not: its closing exchange still belongs to it. The
				// peer acknowledges the FIN and sends its own - answered by an ACK from the connection, not by a
				// reset as if nobody owned the 4-tuple (and not by whoever else listens on that port)
				p := sk.peer
				var fin *codec.TCP
				for _, t := range p.Mine(w.Take()) {
					if t.Flags&codec.FlagFIN != 0 {
						fin = t
					}
				}
				if fin != nil {
					p.RcvNxt = fin.Seq + uint32(len(fin.Payload)) + 1
					p.Send(codec.FlagFIN|codec.FlagACK, p.SndNxt, p.RcvNxt, 65535, nil, nil)
					nrst, nack := 0, 0
					for _, t := range p.Mine(w.Take()) {
						if t.Flags&codec.FlagRST != 0 {
							nrst++
						} else if t.Flags&codec.FlagACK != 0 && t.Ack == p.SndNxt+1 {
							nack++
						}
					}
					w.Probes["closing_exchange_completed_by_the_peer"]++
					if nrst > 0 || nack == 0 {
						why := ""
						if sk.activeWild {
							for _, o := range w.socks {
								if !o.closed && o.listener && o.laddr == sk.laddr && o.lport == sk.lport {
									why = " [the connection was opened actively from a socket bound to the wildcard address, and a listener bound to exactly this address and port is open]"
								}
							}
						}
						w.demuxFail("closing-connection-not-served", "connection % x:%d <-> % x:%d was closed by the application and sent its FIN; the peer's FIN-ACK drew %d resets and %d acknowledgements of it - the connection owns its 4-tuple until the exchange is over%s", []byte(sk.laddr), sk.lport, []byte(sk.raddr), sk.rport, nrst, nack, why)
					}
					p.SndNxt++
				}
			}
			w.Take()
		}
	case "reopen":
		// close a socket and at once open one of the same kind on the same address
		// and port, before the closed one's own goroutine has wound down
		if s.A >= 0 && s.A < len(w.socks) && !w.socks[s.A].closed && len(w.socks) < 14 {
			o := w.socks[s.A]
			if o.fake != nil || (o.tcp && !o.listener) {
				break
			}
			w.closeSock(o)
			kind := 0
			if o.tcp {
				kind = 2
			}
			n := w.openAt(kind, o.resAddr, o.lport, 0, 0, 0)
			w.Probes["closed_and_reopened_at_once"]++
			if n != nil && kind == 2 && s.B%2 == 0 {
				w.openAt(3, o.resAddr, o.lport, s.C, 0, s.C)
			}
			w.Settle()
			w.Take()
		}
	case "addr":
		// remove or re-assign the second address of NIC 1 (not when the interface answers for
		// unassigned addresses anyway: temporary endpoints then blur what 'assigned' means)
		if w.cfg.Promisc || w.cfg.Subnet || w.cfg.Spoof {
			break
		}
		x := dmLocal[2]
		if !w.addrOff {
			// users of the address keep a counted reference: while any socket that was open at this
			// moment used it, the address may linger (the stack documents this)
			w.users = nil
			for _, sk := range w.socks {
				// connected UDP sockets and TCP connections hold a route, i.e. a reference to their local address
				if sk.fake == nil && sk.laddr == x && sk.raddr != "" && (!sk.closed || sk.tcp) {
					w.users = append(w.users, sk)
				}
			}
			if e := w.S.S.RemoveAddress(1, x); e == nil {
				w.addrOff = true
				w.Probes["address_removed"]++
			}
		} else if e := w.S.S.AddAddress(1, ipv4.ProtocolNumber, x); e == nil {
			w.addrOff, w.users = false, nil
			w.Probes["address_added_again"]++
		} else if !w.lingering() {
			w.demuxFail("address-cannot-be-assigned-again", "AddAddress of % x, removed earlier and used by nothing since, failed: %s", []byte(x), e.String())
		}
		w.Settle()
		w.Take()
	case "raceclose":
		// a datagram for a UDP socket is handed to the stack and, without waiting for it to be
		// queued, another goroutine closes that socket: once both are done, the closed socket is empty
		if s.A < 0 || s.A >= len(w.socks) {
			break
		}
		sk := w.socks[s.A]
		if sk.closed || sk.tcp || sk.fake != nil || sk.loose || (w.addrOff && (sk.laddr == dmLocal[2])) {
			break
		}
		dst := sk.laddr
		if dst == "" {
			dst = dmLocal[1]
		}
		link := w.S.Link
		if nicOf(dst) == 2 || sk.nic == 2 {
			break
		}
		src, sport := dmRAddr[0], dmRPort[0]
		if sk.raddr != "" {
			src, sport = sk.raddr, sk.rport
		}
		sk.ep.SetSockOpt(tcpip.TimestampOption(1)) // the clock is read on the delivery path: a schedule point
		w.npkt++
		w.ipid++
		seg := codec.EncodeUDP([]byte(src), []byte(dst), sport, sk.lport, dmPayload(w.seed, w.npkt))
		w.InjectNoWait(link, ipv4.ProtocolNumber, codec.IPv4([]byte(src), []byte(dst), codec.ProtoUDP, w.ipid, 64, false, false, 0, seg), 0)
		ep := sk.ep
		sk.closed = true
		if s.B%2 == 0 {
			// the closer lines up behind the delivery: it gets its turn when the delivery yields
			go func() {
				runtime.Gosched()
				ep.Close()
			}()
		} else {
			go ep.Close()
		}
		w.Settle()
		w.Probes["close_racing_with_delivery"]++
		if v, _, err := ep.Read(nil); err == nil {
			w.demuxFail("delivered-after-close", "a datagram (%d bytes) is readable on a UDP socket whose Close has returned: it was queued after the socket had been unregistered and drained", len(v))
		}
		w.Take()
	case "udp":
		w.inject(false, s.A, s.B, s.C, int(s.D))
	case "subnet":
		// (Subnet configurations) the subnet is removed from the interface, or added again: unassigned addresses
		// inside it are served exactly while it is there - also those that were hit before
		if !w.cfg.Subnet {
			break
		}
		sn, err := tcpip.NewSubnet("\x0a\x00\x00\x00", "\xff\xff\xff\x00")
		if err != nil {
			break
		}
		if w.subnetOff {
			if e := w.S.S.AddSubnet(1, ipv4.ProtocolNumber, sn); e == nil {
				w.subnetOff = false
			}
		} else {
			w.S.S.RemoveSubnet(1, sn)
			w.subnetOff = true
			w.Probes["subnet_removed"]++
		}
	case "racereg":
		// two endpoints are registered under one and the same identity at the same time (two goroutines):
		// whoever comes second is refused - never two owners of one identity
		id := stack.TransportEndpointID{LocalPort: dmPorts[3], LocalAddress: dmLocal[1+s.A%2], RemoteAddress: dmRAddr[s.B%3], RemotePort: dmRPort[s.B%3]}
		free := true
		for _, o := range w.socks {
			if !o.closed && o.fake != nil && o.laddr == id.LocalAddress && o.raddr == id.RemoteAddress && o.rport == id.RemotePort {
				free = false
			}
		}
		if !free {
			break
		}
		var errs [2]*tcpip.Error
		eps := [2]*fakeEP{{}, {}}
		done := make(chan int, 2)
		for i := 0; i < 2; i++ {
			i := i
			go func() {
				errs[i] = w.S.S.RegisterTransportEndpoint(0, []tcpip.NetworkProtocolNumber{ipv4.ProtocolNumber}, udp.ProtocolNumber, id, eps[i])
				done <- i
			}()
		}
		w.Settle()
		<-done
		<-done
		w.Probes["registrations_racing_for_one_identity"]++
		nok := 0
		for i := 0; i < 2; i++ {
			if errs[i] == nil {
				nok++
			}
		}
		switch {
		case nok == 2:
			w.demuxFail("duplicate-registration-accepted", "two endpoints registered at the same time under the identity (% x:%d, % x:%d) were both accepted", []byte(id.LocalAddress), id.LocalPort, []byte(id.RemoteAddress), id.RemotePort)
		case nok == 0:
			w.demuxFail("registration-refused", "two endpoints raced for the free identity (% x:%d, % x:%d) and both were refused", []byte(id.LocalAddress), id.LocalPort, []byte(id.RemoteAddress), id.RemotePort)
		}
		// the winner stays as one more endpoint of the scenario
		for i := 0; i < 2; i++ {
			if errs[i] == nil {
				w.socks = append(w.socks, &dmSock{laddr: id.LocalAddress, lport: id.LocalPort, raddr: id.RemoteAddress, rport: id.RemotePort, fake: eps[i]})
				break
			}
		}
	case "reconnect":
		// a connected UDP socket is connected again - to the peer it already has, or to another one. Whatever
		// the call returns, the socket keeps the port it holds (judged by the binds that follow)
		if s.A < 0 || s.A >= len(w.socks) {
			break
		}
		sk := w.socks[s.A]
		if sk.closed || sk.tcp || sk.fake != nil || sk.raddr == "" || sk.protos == 3 || sk.nic == 2 {
			break
		}
		ra, rp := dmRAddr[s.B%3], dmRPort[s.B%3]
		if s.C == 0 {
			ra, rp = sk.raddr, sk.rport
		}
		taken := false
		for _, o := range w.socks {
			if o != sk && !o.closed && !o.tcp && o.lport == sk.lport && o.laddr == sk.laddr && o.raddr == ra && o.rport == rp {
				taken = true
			}
		}
		e := sk.ep.Connect(tcpip.FullAddress{Addr: ra, Port: rp})
		w.Settle()
		w.Probes["udp_sockets_connected_again"]++
		switch {
		case e == nil:
			sk.raddr, sk.rport = ra, rp
		case taken || (ra == sk.raddr && rp == sk.rport):
			w.Probes["udp_connect_again_refused"]++ // (the identity is in use - by another socket or by this very one)
		}
	case "icmperr":
		// a router reports "port unreachable" for a datagram this host never sent (the quoted source is not one
		// of its addresses): it concerns no socket here - afterwards every socket still has nothing to report
		src := tcpip.Address("\x0a\x00\x00\x63")
		quoted := codec.IPv4([]byte(src), []byte(dmRAddr[s.B%3]), codec.ProtoUDP, 77, 64, false, false, 0, codec.EncodeUDP([]byte(src), []byte(dmRAddr[s.B%3]), dmPorts[s.A%3], dmRPort[s.B%3], []byte("payload!")))
		w.ipid++
		w.Take()
		w.Inject(w.S.Link, ipv4.ProtocolNumber, codec.IPv4([]byte(dmRAddr[s.B%3]), []byte(dmLocal[1]), codec.ProtoICMP, w.ipid, 64, false, false, 0, codec.EncodeICMPv4(3, 3, 0, quoted[:28])), "", "", 0)
		w.Probes["icmp_errors_about_foreign_datagrams"]++
		for i, sk := range w.socks {
			if sk.closed || sk.listener || sk.tcp || sk.fake != nil {
				continue
			}
			if _, _, err := sk.ep.Read(nil); err != nil && err != tcpip.ErrWouldBlock && err != tcpip.ErrClosedForReceive {
				w.demuxFail("control-message-to-wrong-socket", "an ICMP error about a datagram from % x:%d - not an address of this host - was reported to socket %d (bound % x:%d): Read returned %q", []byte(src), dmPorts[s.A%3], i, []byte(sk.laddr), sk.lport, err.String())
			}
		}
		w.Take()
	case "udp6":
		// an IPv6 datagram for one of the ports: it reaches the dual-stack socket bound to the wildcard address on that
		// port if there is one, and nobody else - in particular no socket whose binding covers IPv4 only
		port := dmPorts[s.A%3]
		var win *dmSock
		unsure := false
		for _, sk := range w.socks {
			if sk.closed || sk.tcp || sk.fake != nil || sk.lport != port || sk.protos != 3 {
				continue
			}
			if sk.raddr != "" || sk.nic == 2 {
				unsure = true // a dual-stack socket connected to an IPv4 peer, or tied to the other interface
			}
			win = sk
		}
		w.npkt++
		payload := dmPayload(w.seed, w.npkt)
		w.Take()
		w.Inject(w.S.Link, ipv6.ProtocolNumber, codec.IPv6([]byte(B6), []byte(A6), codec.ProtoUDP, 64, codec.EncodeUDP([]byte(B6), []byte(A6), 9000, port, payload)), "", "", 0)
		w.Probes["ipv6_datagrams_injected"]++
		for i, sk := range w.socks {
			if sk.closed || sk.listener || sk.tcp || sk.fake != nil {
				continue
			}
			v, _, err := sk.ep.Read(nil)
			if unsure {
				continue
			}
			if err == nil && sk != win {
				w.demuxFail("delivered-to-wrong-socket", "IPv6 datagram to port %d was delivered to socket %d (bound % x:%d, network protocols %d): its binding does not cover IPv6", port, i, []byte(sk.laddr), sk.lport, sk.protos)
			} else if err != nil && sk == win {
				w.demuxFail("not-delivered", "IPv6 datagram to port %d should reach socket %d (dual-stack, bound to the wildcard address) but that socket has nothing to read (%v)", port, i, err)
			} else if err == nil && !bytes.Equal(v, payload) {
				w.demuxFail("payload-altered", "socket %d read %d bytes that differ from the IPv6 datagram's payload", i, len(v))
			}
		}
		w.Take()
	case "mcast":
		// a UDP socket joins a group through an interface, or drops one of its memberships
		if s.A < 0 || s.A >= len(w.socks) {
			break
		}
		sk := w.socks[s.A]
		if sk.closed || sk.tcp || sk.fake != nil || sk.protos == 3 || sk.v6ep {
			break
		}
		if s.C&2 != 0 && len(sk.groups) > 0 {
			i := s.B % len(sk.groups)
			m := sk.groups[i]
			if e := sk.ep.SetSockOpt(tcpip.RemoveMembershipOption{NIC: tcpip.NICID(m.nic + 1), InterfaceAddr: "\x00\x00\x00\x00", MulticastAddr: m.g}); e == nil {
				sk.groups = append(sk.groups[:i:i], sk.groups[i+1:]...)
				w.Probes["multicast_groups_left"]++
			}
			break
		}
		nic, g := s.C&1, dmGroups[s.B%len(dmGroups)]
		if w.memberOf(nic, g) != nil || w.cfg.Promisc || w.cfg.Subnet {
			break // (one member per interface and group: a second join is refused, and is not what this step is about)
		}
		if e := sk.ep.SetSockOpt(tcpip.AddMembershipOption{NIC: tcpip.NICID(nic + 1), InterfaceAddr: "\x00\x00\x00\x00", MulticastAddr: g}); e == nil {
			sk.groups = append(sk.groups, dmMember{nic, g})
			w.Probes["multicast_groups_joined"]++
		}
	case "tcp":
		w.inject(true, s.A, s.B, s.C, int(s.D))
	case "adv":
		w.Advance(time.Duration(s.D))
		w.Take()
	}
}

func (w *dmWorld) next() Step {
	r := w.Rng
	weights := []int{6, 1, 10, 0, 1, 1, 1, 1}
	if w.cfg.Binds {
		weights = []int{8, 5, 3, 0, 1, 4, 1, 1}
	}
	if w.cfg.Subnet && r.Chance(0.05) {
		return Step{Op: "subnet"}
	}
	if r.Chance(0.03) {
		return Step{Op: "udp6", A: r.Intn(3)}
	}
	if r.Chance(0.02) {
		return Step{Op: "icmperr", A: r.Intn(3), B: r.Intn(3)}
	}
	for _, sk := range w.socks {
		if !sk.closed && sk.reopen != nil && r.Chance(0.04) {
			return *sk.reopen // the same active open once more: its 4-tuple is taken, the Connect is refused locally
		}
	}
	if len(w.socks) < 10 && r.Chance(0.03) {
		return Step{Op: "racereg", A: r.Intn(2), B: r.Intn(3)}
	}
	if len(w.socks) > 0 && r.Chance(0.05) {
		return Step{Op: "reconnect", A: r.Intn(len(w.socks)), B: r.Intn(3), C: r.Intn(2)}
	}
	if len(w.socks) > 0 && r.Chance(0.08) {
		st := Step{Op: "mcast", A: r.Intn(len(w.socks)), B: r.Intn(3), C: r.Pick(3, 3, 2, 2)}
		// memberships pile up on few sockets: a socket that is a member already is the likelier one to join
		// another group, to drop one (any one, not just the latest) - or to be closed, all memberships at once
		for i, sk := range w.socks {
			if !sk.closed && len(sk.groups) > 0 && r.Chance(0.6) {
				st.A = i
				if len(sk.groups) >= 2 && r.Chance(0.5) {
					st.C |= 2
					st.B = r.Intn(len(sk.groups))
				} else if r.Chance(0.25) {
					return Step{Op: "close", A: i}
				}
				break
			}
		}
		return st
	}
	for _, sk := range w.socks {
		if !sk.closed && len(sk.groups) > 0 && r.Chance(0.15) {
			m := sk.groups[r.Intn(len(sk.groups))]
			gi := 0
			for i, g := range dmGroups {
				if g == m.g {
					gi = i
				}
			}
			pi := 0
			for i, p := range dmPorts {
				if p == sk.lport {
					pi = i
				}
			}
			st := Step{Op: "udp", A: m.nic, B: 8 + gi, C: pi, D: int64(r.Intn(3))}
			if r.Chance(0.2) {
				st.A = 1 - st.A
			}
			if r.Chance(0.2) {
				st.B = 8 + r.Intn(3)
			}
			return st
		}
	}
	if r.Chance(0.02) {
		return Step{Op: "udp", A: r.Intn(2), B: 8 + r.Intn(3), C: r.Intn(3), D: int64(r.Intn(3))}
	}
	switch r.Pick(weights...) {
	case 6:
		return Step{Op: "addr"}
	case 7:
		if len(w.socks) > 0 {
			return Step{Op: "raceclose", A: r.Intn(len(w.socks)), B: r.Intn(2)}
		}
		return Step{Op: "addr"}
	case 0:
		kind := r.Pick(4, 3, 3, 3, 2, 2)
		mode := 0
		switch kind {
		case 5:
			mode = []int{0, 2, 2, 1, 5, 5, 33}[r.Intn(7)] // unbound (search start free / at the high port), bound, bound and accepted by the peer, bound dual-stack
		case 2:
			if r.Chance(0.25) {
				mode = 64
			}
			if r.Chance(0.2) {
				mode |= 32 // an IPv6 socket bound to the IPv4-mapped form of the address
			}
		case 0, 1:
			mode = r.Pick(6, 1, 1, 0, 2) // plain / bound through an interface / connected through an interface / wildcard kept
			if mode == 4 && r.Chance(0.3) {
				mode = 6
			}
			switch r.Pick(12, 1, 2) {
			case 1:
				mode |= 16 // through an interface that does not exist
			case 2:
				mode |= 32 // dual-stack IPv6 socket
				if kind == 0 && r.Chance(0.4) {
					mode |= 128 // ... bound to the IPv4-mapped wildcard
				}
			}
			if r.Chance(0.15) {
				mode |= 64 // on the port inside the ephemeral range
			}
		case 4:
			mode = []int{0, 2, 8, 10}[r.Intn(4)]
		}
		return Step{Op: "open", A: kind, B: r.Intn(4), C: r.Intn(3), D: int64(r.Intn(3) + 3*mode)}
	case 5:
		if len(w.socks) > 0 {
			return Step{Op: "reopen", A: r.Intn(len(w.socks)), B: r.Intn(2), C: r.Intn(3)}
		}
		return Step{Op: "open", A: 2, B: r.Intn(4), C: r.Intn(3)}
	case 1:
		if len(w.socks) > 0 {
			return Step{Op: "close", A: r.Intn(len(w.socks))}
		}
		return Step{Op: "open", A: 0, B: r.Intn(4), C: r.Intn(3)}
	case 2, 3:
		op := "udp"
		if r.Chance(0.35) {
			op = "tcp"
		}
		st := Step{Op: op, A: r.Pick(5, 1), B: r.Intn(4), C: r.Intn(4), D: int64(r.Intn(3))}
		// most packets are aimed at (or just beside) an open socket
		if len(w.socks) > 0 && r.Chance(0.7) {
			s := w.socks[r.Intn(len(w.socks))]
			if s.tcp {
				st.Op = "tcp"
			} else {
				st.Op = "udp"
			}
			for i, a := range dmLocal[1:] {
				if a == s.laddr {
					st.B = i
					st.A = dmNICof[i+1]
				}
			}
			for i, p := range dmPorts {
				if p == s.lport {
					st.C = i
				}
			}
			for i := range dmRAddr {
				if dmRAddr[i] == s.raddr && dmRPort[i] == s.rport {
					st.D = int64(i)
				}
			}
			if st.A < 0 {
				st.A = 0
			}
			switch r.Pick(6, 1, 1, 1, 1) { // perturb one coordinate
			case 1:
				st.B = r.Intn(4)
			case 2:
				st.C = r.Intn(4)
			case 3:
				st.D = int64(r.Intn(3))
			case 4:
				st.A = 1 - st.A
			}
		}
		return st
	}
	if r.Chance(0.3) {
		// long enough for every abandoned handshake to time out (63 s) and clean up after itself
		return Step{Op: "adv", D: int64(70 * time.Second)}
	}
	return Step{Op: "adv", D: int64(time.Duration(r.Range(1, 500)) * time.Millisecond)}
}

func (scDemux) Run(t *testing.T, prop string, seed uint64, cfgRaw json.RawMessage, steps []Step, tape []byte, trace bool) *RunOut {
	var cfg DemuxCfg
	json.Unmarshal(cfgRaw, &cfg)
	o := &RunOut{Cfg: cfgRaw}
	bubble(t, func() {
		w := &dmWorld{PeerWorld: NewPeerWorld(seed, 1500, NodeOpts{}), cfg: cfg, prop: prop}
		seeded := verifhook.Choose
		verifhook.Choose = func(site string, n uint32) (uint32, bool) {
			if site == "ports.ephemeral.offset" && w.nextOffset > 0 {
				o := uint32(w.nextOffset)
				w.nextOffset = 0
				return o % n, true
			}
			return seeded(site, n)
		}
		defer w.Close()
		w.TraceOn = trace
		w.YieldP = cfg.YieldP
		s := w.S.S
		must(s.AddAddress(1, ipv4.ProtocolNumber, dmLocal[2]), "second address")
		w.S.Link.Addrs = append(w.S.Link.Addrs, dmLocal[2])
		w.link2 = w.AddLink("S2", 1500, 0, "", -1)
		must(s.CreateNIC(2, w.link2.id), "NIC 2")
		must(s.AddAddress(2, ipv4.ProtocolNumber, dmLocal[3]), "NIC2 address")
		w.link2.Addrs = append(w.link2.Addrs, dmLocal[3])
		s.SetRouteTable([]tcpip.Route{
			{Destination: "\x0a\x01\x00\x00", Mask: "\xff\xff\x00\x00", NIC: 2},
			{Destination: "\x00\x00\x00\x00", Mask: "\x00\x00\x00\x00", NIC: 1},
		})
		if cfg.Promisc || cfg.Subnet {
			// NIC 1 then answers for addresses beyond its assigned ones by design: its source addresses are not judged
			w.S.Link.Addrs = nil
		}
		if cfg.Promisc {
			must(s.SetPromiscuousMode(1, true), "promiscuous")
		}
		if cfg.Spoof {
			must(s.SetSpoofing(1, true), "spoofing")
			w.Probes["spoofing_interfaces"]++
		}
		if cfg.Subnet {
			sn, err := tcpip.NewSubnet("\x0a\x00\x00\x00", "\xff\xff\xff\x00")
			if err == nil {
				must(s.AddSubnet(1, ipv4.ProtocolNumber, sn), "AddSubnet")
			}
		}
		w.Settle()
		if steps == nil {
			for i := 0; i < cfg.MaxSteps && w.Viol == nil; i++ {
				st := w.next()
				w.Steps = append(w.Steps, st)
				w.apply(st)
				w.NSteps++
			}
		} else {
			for _, st := range steps {
				w.apply(st)
				w.NSteps++
				if w.Viol != nil {
					break
				}
			}
			w.Steps = steps
		}
		w.OnEmit = nil
		for _, sk := range w.socks {
			w.closeSock(sk)
		}
		w.Advance(70 * time.Second)
		finish(w.World, o)
		if w.Replay {
			o.Tape = tape
		}
		o.Nontrivial = w.Probes["delivered_to_winner"] > 0
	})
	return o
}

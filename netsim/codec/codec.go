// Package codec is an encoder/decoder for the frames the simulation exchanges
// with the stack, written from the RFCs (791, 792, 793, 768, 826, 8200, 4443,
// 4861, 7323, 2018). It shares no code with the repository's protocol/header
// package: it is the independent reference the C06 monitor and the scripted
// peer rely on.
package codec

import (
	"encoding/binary"
	"errors"
	"fmt"
)

const (
	ProtoICMP   = 1
	ProtoTCP    = 6
	ProtoUDP    = 17
	ProtoICMPv6 = 58

	EtherIPv4 = 0x0800
	EtherARP  = 0x0806
	EtherIPv6 = 0x86dd

	FlagFIN = 0x01
	FlagSYN = 0x02
	FlagRST = 0x04
	FlagPSH = 0x08
	FlagACK = 0x10
	FlagURG = 0x20
)

// Sum is the RFC 1071 one's-complement sum of b added to initial.
func Sum(b []byte, initial uint32) uint32 {
	s := initial
	for len(b) >= 2 {
		s += uint32(b[0])<<8 | uint32(b[1])
		b = b[2:]
	}
	if len(b) == 1 {
		s += uint32(b[0]) << 8
	}
	for s>>16 != 0 {
		s = s&0xffff + s>>16
	}
	return s
}

// Fold returns the complemented 16-bit checksum of a folded sum.
func Fold(s uint32) uint16 {
	for s>>16 != 0 {
		s = s&0xffff + s>>16
	}
	return ^uint16(s)
}

// Packet is a decoded network-layer packet.
type Packet struct {
	V6        bool
	Src, Dst  []byte
	Proto     uint8 // transport protocol (after IPv6 fragment header if any)
	TTL       uint8
	ID        uint32 // IPv4 identification / IPv6 fragment identification
	DF, MF    bool
	FragOff   int // bytes
	HdrLen    int
	TotalLen  int
	Payload   []byte // transport payload (or fragment payload)
	IsFrag    bool
	TOS       uint8
	HasFragV6 bool
}

// DecodeIP decodes and validates an IPv4 or IPv6 packet of the given ethertype.
func DecodeIP(ethertype uint16, b []byte) (*Packet, error) {
	switch ethertype {
	case EtherIPv4:
		return decodeIPv4(b)
	case EtherIPv6:
		return decodeIPv6(b)
	}
	return nil, fmt.Errorf("not an IP ethertype 0x%04x", ethertype)
}

func decodeIPv4(b []byte) (*Packet, error) {
	if len(b) < 20 {
		return nil, fmt.Errorf("ipv4: %d bytes, shorter than a header", len(b))
	}
	if b[0]>>4 != 4 {
		return nil, fmt.Errorf("ipv4: version %d", b[0]>>4)
	}
	ihl := int(b[0]&0xf) * 4
	if ihl < 20 || ihl > len(b) {
		return nil, fmt.Errorf("ipv4: IHL %d bytes with %d available", ihl, len(b))
	}
	tot := int(binary.BigEndian.Uint16(b[2:]))
	if tot != len(b) {
		return nil, fmt.Errorf("ipv4: total length field %d but packet is %d bytes", tot, len(b))
	}
	if Fold(Sum(b[:ihl], 0)) != 0 {
		return nil, fmt.Errorf("ipv4: header checksum does not verify")
	}
	fo := binary.BigEndian.Uint16(b[6:])
	p := &Packet{Src: b[12:16], Dst: b[16:20], Proto: b[9], TTL: b[8], ID: uint32(binary.BigEndian.Uint16(b[4:])),
		DF: fo&0x4000 != 0, MF: fo&0x2000 != 0, FragOff: int(fo&0x1fff) * 8, HdrLen: ihl, TotalLen: tot, Payload: b[ihl:], TOS: b[1]}
	if fo&0x8000 != 0 {
		return nil, fmt.Errorf("ipv4: reserved flag set")
	}
	p.IsFrag = p.MF || p.FragOff != 0
	if p.TTL == 0 {
		return nil, fmt.Errorf("ipv4: TTL 0")
	}
	return p, nil
}

func decodeIPv6(b []byte) (*Packet, error) {
	if len(b) < 40 {
		return nil, fmt.Errorf("ipv6: %d bytes, shorter than a header", len(b))
	}
	if b[0]>>4 != 6 {
		return nil, fmt.Errorf("ipv6: version %d", b[0]>>4)
	}
	pl := int(binary.BigEndian.Uint16(b[4:]))
	if pl != len(b)-40 {
		return nil, fmt.Errorf("ipv6: payload length field %d but %d bytes follow the header", pl, len(b)-40)
	}
	p := &Packet{V6: true, Src: b[8:24], Dst: b[24:40], Proto: b[6], TTL: b[7], HdrLen: 40, TotalLen: len(b), Payload: b[40:]}
	if p.TTL == 0 {
		return nil, fmt.Errorf("ipv6: hop limit 0")
	}
	return p, nil
}

// pseudo returns the pseudo-header sum for a transport segment of length n.
func pseudo(p *Packet, n int) uint32 {
	s := Sum(p.Src, 0)
	s = Sum(p.Dst, s)
	if p.V6 {
		var l [8]byte
		binary.BigEndian.PutUint32(l[0:], uint32(n))
		l[7] = p.Proto
		return Sum(l[:], s)
	}
	var l [4]byte
	l[1] = p.Proto
	binary.BigEndian.PutUint16(l[2:], uint16(n))
	return Sum(l[:], s)
}

// TCPOpt is one decoded TCP option.
type TCPOpt struct {
	Kind uint8
	Data []byte
}

// TCP is a decoded TCP segment.
type TCP struct {
	SrcPort, DstPort uint16
	Seq, Ack         uint32
	Flags            uint8
	Window           uint16
	Urgent           uint16
	DataOff          int
	Opts             []TCPOpt
	Payload          []byte
	// parsed options
	MSS          int // -1 absent
	WS           int // -1 absent
	SACKPerm     bool
	HasTS        bool
	TSVal, TSEcr uint32
	SACK         [][2]uint32
}

// SegLen is the sequence space the segment occupies.
func (t *TCP) SegLen() uint32 {
	n := uint32(len(t.Payload))
	if t.Flags&FlagSYN != 0 {
		n++
	}
	if t.Flags&FlagFIN != 0 {
		n++
	}
	return n
}

// DecodeTCP decodes a TCP segment carried by p, verifying checksum (unless
// skipSum), data offset, option well-formedness and padding.
func DecodeTCP(p *Packet, skipSum bool) (*TCP, error) {
	b := p.Payload
	if len(b) < 20 {
		return nil, fmt.Errorf("tcp: %d bytes, shorter than a header", len(b))
	}
	off := int(b[12]>>4) * 4
	if off < 20 || off > len(b) {
		return nil, fmt.Errorf("tcp: data offset %d bytes with %d available", off, len(b))
	}
	if b[12]&0x0f != 0 {
		return nil, fmt.Errorf("tcp: reserved bits set")
	}
	if !skipSum && Fold(Sum(b, pseudo(p, len(b)))) != 0 {
		return nil, fmt.Errorf("tcp: checksum does not verify")
	}
	t := &TCP{SrcPort: binary.BigEndian.Uint16(b[0:]), DstPort: binary.BigEndian.Uint16(b[2:]),
		Seq: binary.BigEndian.Uint32(b[4:]), Ack: binary.BigEndian.Uint32(b[8:]), Flags: b[13] & 0x3f,
		Window: binary.BigEndian.Uint16(b[14:]), Urgent: binary.BigEndian.Uint16(b[18:]), DataOff: off, Payload: b[off:], MSS: -1, WS: -1}
	if b[13]&0xc0 != 0 {
		return nil, fmt.Errorf("tcp: ECN/reserved flag bits set (0x%02x)", b[13])
	}
	opts := b[20:off]
	for i := 0; i < len(opts); {
		k := opts[i]
		if k == 0 { // EOL: the rest must be zero padding
			for _, z := range opts[i:] {
				if z != 0 {
					return nil, fmt.Errorf("tcp: non-zero byte after end-of-options")
				}
			}
			break
		}
		if k == 1 {
			t.Opts = append(t.Opts, TCPOpt{Kind: 1})
			i++
			continue
		}
		if i+1 >= len(opts) {
			return nil, fmt.Errorf("tcp: option kind %d has no length byte", k)
		}
		l := int(opts[i+1])
		if l < 2 || i+l > len(opts) {
			return nil, fmt.Errorf("tcp: option kind %d has length %d with %d bytes left", k, l, len(opts)-i)
		}
		d := opts[i+2 : i+l]
		t.Opts = append(t.Opts, TCPOpt{Kind: k, Data: d})
		switch k {
		case 2:
			if l != 4 {
				return nil, fmt.Errorf("tcp: MSS option length %d", l)
			}
			t.MSS = int(binary.BigEndian.Uint16(d))
		case 3:
			if l != 3 {
				return nil, fmt.Errorf("tcp: window scale option length %d", l)
			}
			t.WS = int(d[0])
		case 4:
			if l != 2 {
				return nil, fmt.Errorf("tcp: SACK-permitted option length %d", l)
			}
			t.SACKPerm = true
		case 5:
			if l < 10 || (l-2)%8 != 0 {
				return nil, fmt.Errorf("tcp: SACK option length %d", l)
			}
			for j := 0; j+8 <= len(d); j += 8 {
				t.SACK = append(t.SACK, [2]uint32{binary.BigEndian.Uint32(d[j:]), binary.BigEndian.Uint32(d[j+4:])})
			}
		case 8:
			if l != 10 {
				return nil, fmt.Errorf("tcp: timestamp option length %d", l)
			}
			t.HasTS = true
			t.TSVal, t.TSEcr = binary.BigEndian.Uint32(d), binary.BigEndian.Uint32(d[4:])
		}
		i += l
	}
	if t.Flags&FlagSYN == 0 && (t.MSS >= 0 || t.WS >= 0 || t.SACKPerm) {
		return nil, fmt.Errorf("tcp: SYN-only option (MSS/WS/SACK-permitted) on a non-SYN segment")
	}
	return t, nil
}

// UDP is a decoded UDP datagram.
type UDP struct {
	SrcPort, DstPort uint16
	Length           int
	Checksum         uint16
	Payload          []byte
	ZeroSum          bool
}

func DecodeUDP(p *Packet, skipSum bool) (*UDP, error) {
	b := p.Payload
	if len(b) < 8 {
		return nil, fmt.Errorf("udp: %d bytes, shorter than a header", len(b))
	}
	u := &UDP{SrcPort: binary.BigEndian.Uint16(b[0:]), DstPort: binary.BigEndian.Uint16(b[2:]),
		Length: int(binary.BigEndian.Uint16(b[4:])), Checksum: binary.BigEndian.Uint16(b[6:])}
	if u.Length != len(b) {
		return nil, fmt.Errorf("udp: length field %d but datagram is %d bytes", u.Length, len(b))
	}
	u.Payload = b[8:]
	// Verified arithmetically whatever the field holds: a computed checksum of
	// zero transmitted as zero still sums to 0xFFFF (the separate RFC 768/8200
	// rule to send it as 0xFFFF is counted by the caller through ZeroSum).
	u.ZeroSum = u.Checksum == 0
	if !skipSum && Fold(Sum(b, pseudo(p, len(b)))) != 0 {
		return nil, fmt.Errorf("udp: checksum does not verify")
	}
	return u, nil
}

// ICMP is a decoded ICMPv4/ICMPv6 message.
type ICMP struct {
	Type, Code uint8
	Ident, Seq uint16 // echo
	Body       []byte // bytes after the 4-byte header (for echo: after ident/seq use Data)
	Data       []byte // echo payload
}

func DecodeICMP(p *Packet) (*ICMP, error) {
	b := p.Payload
	if len(b) < 4 {
		return nil, fmt.Errorf("icmp: %d bytes", len(b))
	}
	if p.V6 {
		if Fold(Sum(b, pseudo(p, len(b)))) != 0 {
			return nil, fmt.Errorf("icmpv6: checksum does not verify")
		}
	} else if Fold(Sum(b, 0)) != 0 {
		return nil, fmt.Errorf("icmp: checksum does not verify")
	}
	m := &ICMP{Type: b[0], Code: b[1], Body: b[4:]}
	echo := (!p.V6 && (b[0] == 8 || b[0] == 0)) || (p.V6 && (b[0] == 128 || b[0] == 129))
	if echo {
		if len(b) < 8 {
			return nil, fmt.Errorf("icmp: echo message of %d bytes", len(b))
		}
		m.Ident, m.Seq, m.Data = binary.BigEndian.Uint16(b[4:]), binary.BigEndian.Uint16(b[6:]), b[8:]
	}
	return m, nil
}

// ARP is a decoded ARP packet (Ethernet/IPv4).
type ARP struct {
	Op                 uint16
	SHA, SPA, THA, TPA []byte
}

func DecodeARP(b []byte) (*ARP, error) {
	if len(b) < 28 {
		return nil, fmt.Errorf("arp: %d bytes", len(b))
	}
	if binary.BigEndian.Uint16(b[0:]) != 1 || binary.BigEndian.Uint16(b[2:]) != EtherIPv4 || b[4] != 6 || b[5] != 4 {
		return nil, fmt.Errorf("arp: not Ethernet/IPv4 (htype %d ptype 0x%04x hlen %d plen %d)", binary.BigEndian.Uint16(b[0:]), binary.BigEndian.Uint16(b[2:]), b[4], b[5])
	}
	a := &ARP{Op: binary.BigEndian.Uint16(b[6:]), SHA: b[8:14], SPA: b[14:18], THA: b[18:24], TPA: b[24:28]}
	if a.Op != 1 && a.Op != 2 {
		return nil, fmt.Errorf("arp: opcode %d", a.Op)
	}
	return a, nil
}

// ---- encoders ----

// IPv4 builds an IPv4 packet. fragOff in bytes (multiple of 8).
func IPv4(src, dst []byte, proto uint8, id uint16, ttl uint8, df, mf bool, fragOff int, payload []byte) []byte {
	b := make([]byte, 20+len(payload))
	b[0] = 0x45
	binary.BigEndian.PutUint16(b[2:], uint16(len(b)))
	binary.BigEndian.PutUint16(b[4:], id)
	fo := uint16(fragOff / 8)
	if df {
		fo |= 0x4000
	}
	if mf {
		fo |= 0x2000
	}
	binary.BigEndian.PutUint16(b[6:], fo)
	b[8] = ttl
	b[9] = proto
	copy(b[12:], src)
	copy(b[16:], dst)
	binary.BigEndian.PutUint16(b[10:], Fold(Sum(b[:20], 0)))
	copy(b[20:], payload)
	return b
}

// IPv4Opts is IPv4 with an options field (padded to a multiple of four bytes with end-of-list octets).
func IPv4Opts(src, dst []byte, proto uint8, id uint16, ttl uint8, df, mf bool, fragOff int, opts, payload []byte) []byte {
	for len(opts)%4 != 0 {
		opts = append(opts, 0)
	}
	if len(opts) > 40 {
		opts = opts[:40]
	}
	plain := IPv4(src, dst, proto, id, ttl, df, mf, fragOff, nil)
	b := make([]byte, 0, 20+len(opts)+len(payload))
	b = append(b, plain...)
	b = append(b, opts...)
	b = append(b, payload...)
	b[0] = 0x40 | byte((20+len(opts))/4)
	binary.BigEndian.PutUint16(b[2:], uint16(len(b)))
	b[10], b[11] = 0, 0
	binary.BigEndian.PutUint16(b[10:], Fold(Sum(b[:20+len(opts)], 0)))
	return b
}

// IPv4 options a host may legitimately meet: record route, router alert, NOPs.
func OptRecordRoute(slots int) []byte {
	o := []byte{7, byte(3 + 4*slots), 4}
	return append(o, make([]byte, 4*slots)...)
}
func OptRouterAlert() []byte { return []byte{148, 4, 0, 0} }

func IPv6(src, dst []byte, next uint8, hop uint8, payload []byte) []byte {
	b := make([]byte, 40+len(payload))
	b[0] = 0x60
	binary.BigEndian.PutUint16(b[4:], uint16(len(payload)))
	b[6] = next
	b[7] = hop
	copy(b[8:], src)
	copy(b[24:], dst)
	copy(b[40:], payload)
	return b
}

func pseudoRaw(src, dst []byte, proto uint8, n int) uint32 {
	return pseudo(&Packet{V6: len(src) == 16, Src: src, Dst: dst, Proto: proto}, n)
}

// TCPSeg describes a segment to encode.
type TCPSeg struct {
	SrcPort, DstPort uint16
	Seq, Ack         uint32
	Flags            uint8
	Window           uint16
	Opts             []byte // already encoded and padded to a multiple of 4
	Payload          []byte
}

// EncodeTCP returns the TCP header+payload with checksum for the given addresses.
func EncodeTCP(src, dst []byte, s *TCPSeg) []byte {
	hl := 20 + len(s.Opts)
	b := make([]byte, hl+len(s.Payload))
	binary.BigEndian.PutUint16(b[0:], s.SrcPort)
	binary.BigEndian.PutUint16(b[2:], s.DstPort)
	binary.BigEndian.PutUint32(b[4:], s.Seq)
	binary.BigEndian.PutUint32(b[8:], s.Ack)
	b[12] = byte(hl/4) << 4
	b[13] = s.Flags
	binary.BigEndian.PutUint16(b[14:], s.Window)
	copy(b[20:], s.Opts)
	copy(b[hl:], s.Payload)
	binary.BigEndian.PutUint16(b[16:], Fold(Sum(b, pseudoRaw(src, dst, ProtoTCP, len(b)))))
	return b
}

// Option builders (RFC 793/7323/2018).
func OptMSS(v uint16) []byte { return []byte{2, 4, byte(v >> 8), byte(v)} }
func OptWS(v uint8) []byte   { return []byte{3, 3, v} }
func OptSACKPerm() []byte    { return []byte{4, 2} }
func OptNOP() []byte         { return []byte{1} }
func OptTS(val, ecr uint32) []byte {
	b := []byte{8, 10, 0, 0, 0, 0, 0, 0, 0, 0}
	binary.BigEndian.PutUint32(b[2:], val)
	binary.BigEndian.PutUint32(b[6:], ecr)
	return b
}
func OptSACK(blocks [][2]uint32) []byte {
	b := []byte{5, byte(2 + 8*len(blocks))}
	for _, k := range blocks {
		var x [8]byte
		binary.BigEndian.PutUint32(x[0:], k[0])
		binary.BigEndian.PutUint32(x[4:], k[1])
		b = append(b, x[:]...)
	}
	return b
}

// PadOpts pads with NOPs to a multiple of 4.
func PadOpts(o []byte) []byte {
	for len(o)%4 != 0 {
		o = append(o, 1)
	}
	return o
}

func EncodeUDP(src, dst []byte, sport, dport uint16, payload []byte) []byte {
	b := make([]byte, 8+len(payload))
	binary.BigEndian.PutUint16(b[0:], sport)
	binary.BigEndian.PutUint16(b[2:], dport)
	binary.BigEndian.PutUint16(b[4:], uint16(len(b)))
	copy(b[8:], payload)
	c := Fold(Sum(b, pseudoRaw(src, dst, ProtoUDP, len(b))))
	if c == 0 {
		c = 0xffff
	}
	binary.BigEndian.PutUint16(b[6:], c)
	return b
}

// EncodeEcho builds an ICMPv4 (v6=false) or ICMPv6 echo request/reply.
func EncodeEcho(src, dst []byte, v6, reply bool, ident, seq uint16, data []byte) []byte {
	b := make([]byte, 8+len(data))
	switch {
	case !v6 && !reply:
		b[0] = 8
	case !v6 && reply:
		b[0] = 0
	case v6 && !reply:
		b[0] = 128
	default:
		b[0] = 129
	}
	binary.BigEndian.PutUint16(b[4:], ident)
	binary.BigEndian.PutUint16(b[6:], seq)
	copy(b[8:], data)
	if v6 {
		binary.BigEndian.PutUint16(b[2:], Fold(Sum(b, pseudoRaw(src, dst, ProtoICMPv6, len(b)))))
	} else {
		binary.BigEndian.PutUint16(b[2:], Fold(Sum(b, 0)))
	}
	return b
}

// EncodeICMPv4 builds a generic ICMPv4 message (type, code, 4 bytes rest, body).
func EncodeICMPv4(typ, code uint8, rest uint32, body []byte) []byte {
	b := make([]byte, 8+len(body))
	b[0], b[1] = typ, code
	binary.BigEndian.PutUint32(b[4:], rest)
	copy(b[8:], body)
	binary.BigEndian.PutUint16(b[2:], Fold(Sum(b, 0)))
	return b
}

// EncodeICMPv6 builds a generic ICMPv6 message.
func EncodeICMPv6(src, dst []byte, typ, code uint8, rest uint32, body []byte) []byte {
	b := make([]byte, 8+len(body))
	b[0], b[1] = typ, code
	binary.BigEndian.PutUint32(b[4:], rest)
	copy(b[8:], body)
	binary.BigEndian.PutUint16(b[2:], Fold(Sum(b, pseudoRaw(src, dst, ProtoICMPv6, len(b)))))
	return b
}

func EncodeARP(op uint16, sha, spa, tha, tpa []byte) []byte {
	b := make([]byte, 28)
	binary.BigEndian.PutUint16(b[0:], 1)
	binary.BigEndian.PutUint16(b[2:], EtherIPv4)
	b[4], b[5] = 6, 4
	binary.BigEndian.PutUint16(b[6:], op)
	copy(b[8:], sha)
	copy(b[14:], spa)
	copy(b[18:], tha)
	copy(b[24:], tpa)
	return b
}

// Ethernet frame helpers.
func EncodeEth(dst, src []byte, ethertype uint16, payload []byte) []byte {
	b := make([]byte, 14+len(payload))
	copy(b[0:], dst)
	copy(b[6:], src)
	binary.BigEndian.PutUint16(b[12:], ethertype)
	copy(b[14:], payload)
	return b
}

type Eth struct {
	Dst, Src  []byte
	EtherType uint16
	Payload   []byte
}

func DecodeEth(b []byte) (*Eth, error) {
	if len(b) < 14 {
		return nil, errors.New("eth: frame shorter than 14 bytes")
	}
	return &Eth{Dst: b[0:6], Src: b[6:12], EtherType: binary.BigEndian.Uint16(b[12:]), Payload: b[14:]}, nil
}

package netsim

import (
	"verif/netsim/codec"

	"github.com/brewlin/net-protocol/pkg/rand"

	tcpip "github.com/brewlin/net-protocol/protocol"
	"github.com/brewlin/net-protocol/protocol/network/ipv4"
	"github.com/brewlin/net-protocol/protocol/network/ipv6"
)

// TCPPeer is the scripted raw peer's view of one TCP 4-tuple.
type TCPPeer struct {
	NoWait    bool // Send does not wait for the stack to settle
	w         *PeerWorld
	V6        bool
	PAddr     tcpip.Address // peer (scripted) address
	SAddr     tcpip.Address // stack address
	PPort     uint16
	SPort     uint16
	ISS       uint32 // peer's initial sequence number
	SndNxt    uint32
	RcvNxt    uint32 // next sequence number expected from the stack
	StackISS  uint32
	HaveISS   bool
	StackMSS  int
	StackWS   int
	StackTS   bool
	StackSACK bool
	TSOn      bool   // timestamps negotiated: every segment we send echoes the stack's latest TSVal
	TSRecent  uint32 // stack's latest TSVal
	tsClock   uint32
	Mode      int // view chunking used for injection
}

func (w *PeerWorld) NewTCPPeer(v6 bool, pport, sport uint16, iss uint32) *TCPPeer {
	p := &TCPPeer{w: w, V6: v6, PPort: pport, SPort: sport, ISS: iss, SndNxt: iss, StackMSS: -1, StackWS: -1, tsClock: 1000}
	if v6 {
		p.PAddr, p.SAddr = B6, A6
	} else {
		p.PAddr, p.SAddr = B4, A4
	}
	return p
}

// Send builds and injects one segment. opts must already be padded.
func (p *TCPPeer) Send(flags uint8, seq, ack uint32, win uint16, opts, payload []byte) {
	if p.TSOn && flags&codec.FlagRST == 0 {
		p.tsClock++
		opts = append(append([]byte(nil), opts...), codec.PadOpts(codec.OptTS(p.tsClock, p.TSRecent))...)
	}
	seg := codec.EncodeTCP([]byte(p.PAddr), []byte(p.SAddr), &codec.TCPSeg{SrcPort: p.PPort, DstPort: p.SPort, Seq: seq, Ack: ack, Flags: flags, Window: win, Opts: opts, Payload: payload})
	if p.NoWait {
		// handed to the link's receive goroutine without waiting: the next segment may be queued behind it
		proto := tcpip.NetworkProtocolNumber(ipv4.ProtocolNumber)
		var pkt []byte
		if p.V6 {
			proto = ipv6.ProtocolNumber
			pkt = codec.IPv6([]byte(p.PAddr), []byte(p.SAddr), codec.ProtoTCP, 64, seg)
		} else {
			p.w.ipid++
			pkt = codec.IPv4([]byte(p.PAddr), []byte(p.SAddr), codec.ProtoTCP, p.w.ipid, 64, false, false, 0, seg)
		}
		p.w.InjectNoWait(p.w.S.Link, proto, pkt, p.Mode)
		return
	}
	p.w.InjectIP(p.V6, p.PAddr, p.SAddr, codec.ProtoTCP, seg, p.Mode)
}

// Mine filters the frames of this 4-tuple out of ds and tracks what the stack said.
func (p *TCPPeer) Mine(ds []*Decoded) []*codec.TCP {
	var out []*codec.TCP
	for _, d := range ds {
		if d.TCP == nil || d.IP == nil || d.IP.V6 != p.V6 {
			continue
		}
		t := d.TCP
		if t.SrcPort != p.SPort || t.DstPort != p.PPort || !sameAddr(d.IP.Dst, string(p.PAddr)) || !sameAddr(d.IP.Src, string(p.SAddr)) {
			continue
		}
		out = append(out, t)
		if t.Flags&codec.FlagSYN != 0 {
			p.StackISS, p.HaveISS = t.Seq, true
			p.StackMSS, p.StackWS, p.StackTS, p.StackSACK = t.MSS, t.WS, t.HasTS, t.SACKPerm
			p.RcvNxt = t.Seq + 1
		}
		if t.HasTS {
			p.TSRecent = t.TSVal
		}
	}
	return out
}

// placeISS queues t as the next 4-byte draw from pkg/rand, which is the
// initial sequence number of the next active handshake.
func placeISS(t uint32) {
	rand.VerifNext([]byte{byte(t), byte(t >> 8), byte(t >> 16), byte(t >> 24)})
}

module verif

go 1.26

toolchain go1.26.8

require (
	github.com/anishathalye/porcupine v1.3.0
	github.com/brewlin/net-protocol v0.0.0
)

replace github.com/brewlin/net-protocol => /repo

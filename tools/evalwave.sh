#!/bin/bash
# evalwave.sh <prop>...: run each seed of /tmp/wt-<prop>/_seed/{1,2,3} against the property's quick check
cd /verif
for p in "$@"; do for k in 1 2 3; do
  [ -f /tmp/wt-$p/_seed/$k/patch.diff ] || continue
  echo "== $p seed $k"
  tools/tryseed.sh $p /tmp/wt-$p/_seed/$k/patch.diff 2>&1 | grep -v "^KNOWN-FINDING\|^built" | tail -2 | cut -c1-330
done; done

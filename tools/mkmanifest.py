#!/usr/bin/env python3
"""Write /verif/MANIFEST.json from tools/props.py (kept in sync by construction)."""
import json, os, subprocess, sys
HERE = os.path.dirname(os.path.dirname(os.path.abspath(__file__)))
sys.path.insert(0, os.path.join(HERE, "tools"))
from props import PROPS, NOT_APPLICABLE

hooks = subprocess.check_output(["git", "-C", "/repo", "log", "--format=%H %s", "--grep=^verif hook:"], text=True).strip().splitlines()
checks = []
for pid in sorted(PROPS):
    P = PROPS[pid]
    checks.append({
        "property_id": pid,
        "quick_cmd": "./check %s --tier quick" % pid,
        "thorough_cmd": "./check %s --tier thorough" % pid,
        "evidence_file": "/verif/evidence/%s.json" % pid,
        "replay_cmd_template": "./check %s --replay {path}" % pid,
        "engine": P["engine"],
        "level_claimed": {"category": P["level"], "text": P["level_text"], "design_ref": P.get("design_ref", "DESIGN.md section 6, " + pid)},
        "level_note": P["level_note"],
        "technique": P.get("technique", "deterministic simulation with fault injection: seeded schedule/fault search over the real code in a synctest bubble, oracle on the recorded history, delta-debugged replay file"),
    })
claimed = set(PROPS)
na = [dict(property_id=k, reason=v) for k, v in sorted(NOT_APPLICABLE.items()) if k not in claimed]
m = {
    "version": 1,
    "setup_cmd": "./check --setup",
    "hooks": {
        "guard": "verif (Go build tag)",
        "enable": "go1.26.8 test -c -tags verif -overlay /verif/.build/overlay.json (GOTOOLCHAIN=local; module verif replaces github.com/brewlin/net-protocol => /repo)",
        "baseline_off_cmd": "cd /repo && GOFLAGS=-mod=mod GOPROXY=off GOSUMDB=off go test -json -vet=off -count=1 -timeout 25m ./...",
        "source_commits": [h.split()[0] for h in hooks][::-1],
        "add_only": True,
    },
    "engines": [
        {"name": "primsim", "path": "/verif/primsim", "serves_properties": sorted(p for p in PROPS if PROPS[p]["engine"] == "primsim"),
         "kind_free_text": "controlled scheduler: every task parks at verif schedule points inside a synctest bubble; a seeded (uniform or PCT) scheduler releases one task per step; histories checked by interval oracles and porcupine"},
        {"name": "netsim", "path": "/verif/netsim", "serves_properties": sorted(p for p in PROPS if PROPS[p]["engine"] == "netsim"),
         "kind_free_text": "discrete-event simulation of one or two real stacks over an in-memory wire with seeded drop/dup/reorder/delay/replay faults and link write errors, fake clock (testing/synctest), seeded timer ties, map iteration and select order (runtime overlay), scripted raw peer with an independent codec"},
        {"name": "netsimx", "path": "/verif/netsim (second build)", "serves_properties": sorted(p for p in PROPS if any("netsimx:" in v for t in ("quick", "thorough") for v in (PROPS[p].get(t) or {}).get("variants") or [])),
         "kind_free_text": "the netsim package compiled against /repo's working tree instrumented at build time by tools/autoyield: a seeded schedule point (runtime.Gosched, recorded on the run's tape) before every statement of the stack that synchronises; used by a share of the workers of the properties listed"},
    ],
    "checks": checks,
    "not_applicable": na,
    "notes": "All checks: ./check <id> [--tier quick|thorough] [--replay file]; exit 0 held / 1 VIOLATION / 2 infrastructure trouble (never dressed as a violation). Known findings: /verif/known_findings.json. Invocations build into private directories under .build/ and may run concurrently. Run from /verif. See DESIGN.md.",
}
json.dump(m, open(os.path.join(HERE, "MANIFEST.json"), "w"), indent=1)
print("MANIFEST.json: %d checks, %d not_applicable" % (len(checks), len(na)))

#!/usr/bin/env python3
"""rep.py FILE <<< JSON list of [old,new] pairs; each old must match exactly once."""
import json, sys
p = sys.argv[1]
s = open(p).read()
for old, new in json.load(sys.stdin):
    assert s.count(old) == 1, "%s: %d matches for %r" % (p, s.count(old), old[:60])
    s = s.replace(old, new)
open(p, 'w').write(s)

#!/usr/bin/env python3
"""rep.py FILE <<< JSON list of [old,new] pairs; each old must match exactly once.
Runs of spaces/tabs inside a line of `old` match any run of spaces/tabs (gofmt realigns)."""
import json, re, sys
p = sys.argv[1]
s = open(p).read()
for old, new in json.load(sys.stdin):
    parts = re.split(r'([ \t]+)', old)
    rx = ''.join('[ \\t]+' if re.fullmatch(r'[ \t]+', x) and i > 0 and not parts[i-1].endswith('\n') and parts[i-1] != '' else re.escape(x) for i, x in enumerate(parts))
    m = list(re.finditer(rx, s))
    assert len(m) == 1, "%s: %d matches for %r" % (p, len(m), old[:60])
    s = s[:m[0].start()] + new + s[m[0].end():]
open(p, 'w').write(s)

"""Per-property configuration of the runner: engine, budgets, evidence texts."""

PRIM_REAL = ["pkg/tmutex", "pkg/waiter", "pkg/ilist", "pkg/sleep (sleep_unsafe.go, Go commitSleep)", "protocol/ports",
             "protocol/network/fragmentation"]
PRIM_STUBS = ["goroutine scheduling: one task released per step by the simulator at verif schedule points",
              "runtime.gopark/goready + commit_amd64.s of pkg/sleep: replaced by the channel parker of the verif hook",
              "time-slice pre-emption and same-instant timer order: runtime overlay"]
PRIM_ASSUME = ["interleavings are explored at the granularity of the verif schedule points (before each atomic/channel/lock operation); "
               "pre-emption between two plain memory accesses with no schedule point between them is not explored",
               "a clean batch is evidence, not proof"]

PROPS = {
    "C18": dict(
        engine="primsim", level="exploration",
        quick=dict(runs=128000, workers=16),
        thorough=dict(budget_s=600, workers=16),
        rule="one evaluation = one seeded schedule (uniform random or PCT priorities) of 2-4 tasks running random Lock/TryLock/Unlock scripts on one "
             "tmutex.Mutex with schedule points before every atomic/channel operation; non-trivial = at least one Lock entered the contended slow path; "
             "distinct = distinct hash of the (task, schedule point) sequence plus acquisition history",
        expected_probes=["lock_slow_path_sleep", "unlock_found_waiters"],
        real=["pkg/tmutex (all of tmutex.go)"], stubs=PRIM_STUBS, assumptions=PRIM_ASSUME,
        hang_is_violation=True,
        level_text="seeded exploration of interleavings of the shipped tmutex code at the granularity of its atomic and channel operations "
                   "(uniform random and PCT schedulers), with occupancy, TryLock and lost-wake-up oracles; evidence, not proof",
        level_note="trusts the Go runtime, testing/synctest quiescence detection and the two-line runtime overlay; schedule points sit before each atomic/channel "
                   "operation of tmutex.go (verif hook), so the load and the swap inside one expression of Lock's slow path are not separated",
    ),
}

PROPS["C19"] = dict(
    engine="primsim", level="exploration",
    quick=dict(runs=160000, workers=16),
    thorough=dict(budget_s=600, workers=16),
    rule="one evaluation = one seeded schedule of one fetching task (AddWaker, blocking and non-blocking Fetch, Done followed by re-attaching the wakers to a "
         "fresh Sleeper) against 1-8 tasks asserting/clearing 1-8 wakers, with schedule points before every atomic operation of sleep_unsafe.go including "
         "between prepare, re-check, commit and block; non-trivial = at least 3 context switches and the sleeper reached its prepare-to-sleep window or a "
         "waker reached the wake CAS; distinct = distinct hash of the (task, schedule point) sequence plus fetch/clear history",
    expected_probes=["sleeper_abort_before_commit", "sleeper_parked", "done_then_reattach", "fetch_blocked_legitimately"],
    real=["pkg/sleep/sleep_unsafe.go (all of it)", "pkg/sleep/commit_verif.go (the Go commitSleep, same text as commit_noasm.go)"],
    stubs=PRIM_STUBS, assumptions=PRIM_ASSUME + [
        "an Assert that finds its waker already asserted returns at once and its notification travels with the earlier, possibly still in-flight Assert; "
        "the non-blocking-fetch demand is made only when no Assert of that waker overlaps the fetch (DESIGN.md section 9, reading note R1)"],
    hang_is_violation=True,
    level_text="seeded exploration of interleavings of the shipped Sleeper/Waker algorithm at the granularity of its atomic operations, with interval oracles for "
               "lost, invented and duplicated wake-ups, non-blocking fetch, and Done (memory of a finished sleeper must not change); evidence, not proof",
    level_note="the park/unpark primitive is the channel parker of the verif hook, not runtime.gopark/goready nor the amd64 assembly commitSleep; everything "
               "above it is the shipped code; the race detector is not part of the check",
)

PROPS["C17"] = dict(
    engine="primsim", level="exploration",
    quick=dict(runs=96000, workers=16),
    thorough=dict(budget_s=600, workers=16),
    rule="one evaluation = one seeded schedule of 2-5 tasks registering/unregistering their own entries (plain and channel-backed, masks from a 3-bit "
         "universe), notifying, querying Events and taking channel tokens on one waiter.Queue, with schedule points before each lock acquisition, between the "
         "statements of every critical section, per entry of Notify's walk and inside the callbacks; non-trivial = at least one callback ran and at least 3 "
         "context switches; distinct = distinct hash of the (task, schedule point) sequence plus notify results",
    expected_probes=["lock_contended", "channel_entry_notified"],
    real=["pkg/waiter/waiter.go", "pkg/ilist/list.go"],
    stubs=PRIM_STUBS + ["sync.RWMutex blocking: a task about to acquire q.mu parks at a schedule point until a TryLock probe succeeds, then takes the real lock"],
    assumptions=PRIM_ASSUME,
    hang_is_violation=True,
    level_text="seeded exploration of interleavings of the shipped wait queue with an interval oracle (must-call / may-call sets per Notify, exactly-once, "
               "no callback after unregistration returned, channel token never lost) and a porcupine linearizability cross-check against a sequential "
               "set-of-(entry,mask) model; evidence, not proof",
    level_note="an entry is registered and unregistered only by its owning task (the API allows an entry in one queue at a time); histories are at most 60 "
               "operations so porcupine never times out (a timeout would be counted as inconclusive, never as a violation)",
    technique="deterministic simulation: seeded controlled scheduler over the real code, interval oracle plus porcupine linearizability check of the recorded history",
)

PROPS["C10"] = dict(
    engine="primsim", level="exploration",
    quick=dict(runs=128000, workers=16, variants=["", "", "netsim:demux", "", "", "", "netsimx:demux", ""]),
    thorough=dict(budget_s=600, workers=16, variants=["", "netsim:demux", "", "netsimx:demux"]),
    rule="one evaluation = (1) one seeded schedule of 2-4 tasks issuing ReservePort (specific and ephemeral), ReleasePort and IsPortAvailable over "
         "{IPv4,IPv6,both} x {TCP,UDP} x {wildcard,a,b} x 4 ports on one PortManager with schedule points before each lock and between check and insert, "
         "checked for linearizability against a sequential reservation-set model, plus (2) 2-12 PickEphemeralPort calls whose tester accepts one or two ports "
         "anywhere in [16000,65535] and whose starting offset is supplied by the simulator (boundary offsets 0, 16000+-1, 49534/5, uniform, and offsets whose "
         "search crosses 65536); non-trivial = the lock was contended or a probe's search crossed 65536; distinct = distinct hash of schedule and results",
    expected_probes=["lock_contended", "probe_offset_crosses_65536", "ephemeral_reserve", "bind_refused_on_conflict", "bind_succeeded",
                     "closed_and_reopened_at_once", "wildcard_bound_then_connected"],
    real=["protocol/ports/ports.go", "netsim:demux variant: protocol/transport/udp and tcp Bind/Listen/Connect/Close over the real stack"],
    stubs=PRIM_STUBS + ["math/rand draw of the ephemeral search offset: supplied by the simulator through the verif seam",
                        "sync.RWMutex blocking: a task about to acquire the manager's lock parks until a TryLock probe succeeds"],
    assumptions=PRIM_ASSUME + ["socket-level clause (variant netsim:demux, a quarter of the workers): the C09 world driven mostly with open/close/reopen of UDP sockets "
                               "(wildcard/specific, connected, interface-bound) and TCP listeners; a Bind(+Listen) must fail iff an open socket holds a conflicting "
                               "reservation, immediately after the Close of the previous holder returns; TCP active-open (Connect) reservations are not covered"],
    hang_is_violation=True,
    level_text="seeded exploration: concurrent reserve/release/availability histories checked with porcupine against a sequential model carrying the statement's "
               "conflict rule; the ephemeral search checked directly for every sampled (starting offset, acceptable port set); evidence, not proof",
    level_note="the model treats an ephemeral reservation's returned port as nondeterministic (any free port in range is legal) and its failure as illegal, "
               "since a few operations can never exhaust 49536 ports; histories are at most 60 operations",
    technique="deterministic simulation: seeded controlled scheduler over the real PortManager, porcupine linearizability check of the recorded history, "
              "simulator-chosen starting offsets for the ephemeral search; seeded socket open/close/reopen histories over the real stack against a "
              "reservation-set reference",
)

PROPS["C08"] = dict(
    engine="primsim", level="exploration",
    quick=dict(runs=128000, workers=16, variants=["", "netsim:reasm"]),
    thorough=dict(budget_s=600, workers=16, variants=["", "netsim:reasm"]),
    rule="one evaluation = one seeded schedule of 1-4 tasks calling fragmentation.Process concurrently with the 8-byte-aligned fragments of 1-3 datagrams "
         "(position-keyed content; random cuts, a second overlapping cut, duplicates, withheld fragments, random arrival order), in one or two phases separated "
         "by a fake-clock jump of 29-300 s, sometimes with tiny memory limits; schedule points between the two locked sections of Process; non-trivial = at "
         "least 3 fragments injected and at least one datagram handed up; distinct = distinct hash of schedule and delivery history",
    expected_probes=["delivered", "clock_jump", "memory_pressure", "delivered_twice_from_duplicates", "datagrams_reassembled", "near_key_pairs",
                     "fragments_with_link_padding", "overlapping_fragments", "reassembled_again_from_duplicates", "whole_datagrams", "clock_advances", "fragments_carrying_df"],
    real=["protocol/network/fragmentation (fragmentation.go, reassembler.go, frag_heap.go, reassembler_list.go)", "pkg/buffer (VectorisedView clone/trim)",
          "netsim:reasm variant: protocol/network/ipv4 (HandlePacket), protocol/network/hash, stack (nic.go), protocol/transport/udp, ipv4 ICMP echo"],
    stubs=PRIM_STUBS + ["wall clock: testing/synctest fake clock (reassembly timeout)"],
    assumptions=PRIM_ASSUME + ["half of the workers drive the exported Process API with 32-bit keys chosen by the harness under the controlled scheduler; the other "
                               "half (variant netsim:reasm) send IPv4 fragments of UDP datagrams and echo requests through the link layer of one real stack: "
                               "pairs of datagrams whose reassembly keys differ in exactly one of source (also only in the last octet), destination, protocol "
                               "and identification, all fragments interleaved in one instant (both must come out intact, exactly as sent, at the right socket "
                               "from the right sender), random 8-byte-aligned cuts into 2-6 (one in five: 16-40) fragments, a fifth of the datagrams with the "
                               "don't-fragment bit copied into every fragment, duplicates, overlapping pieces of a second cut, 1-26 "
                               "bytes of link-layer padding behind the IP total length, slow datagrams whose fragments are spread over clock advances of "
                               "1-40 s around the 30 s timeout; a delivery must be covered by fragments received after the datagram's previous delivery and "
                               "no longer than the timeout ago; a key is reused only after it has been idle for longer than the timeout",
                               "memory-limit eviction is exercised at the API level only"],
    hang_is_violation=True,
    level_text="seeded exploration of concurrent and sequential fragment arrival histories against a byte-exact reference: whatever is handed up equals one "
               "original datagram, only when the fragments received since its last delivery and within the timeout cover it including the last fragment; a "
               "complete set received within one instant and within the memory limits is handed up; evidence, not proof",
    level_note="fragments with offset+length beyond 65535 or with contradictory last-fragment flags are malformed input and belong to C07",
)

NET_REAL = ["stack (stack.go, nic.go, route.go, transport_demuxer.go, linkaddrcache.go)", "protocol/network/ipv4, ipv6, arp, fragmentation, hash",
            "protocol/transport/tcp (all of it: endpoint, connect, accept, snd, rcv, sack, reno, cubic, timer, segment*)", "protocol/transport/udp",
            "protocol/header", "pkg/buffer, pkg/seqnum, pkg/sleep (Go commitSleep), pkg/tmutex, pkg/waiter, pkg/ilist", "protocol/ports"]
NET_STUBS = ["NIC and wire: in-memory link endpoints registered through stack.RegisterLinkEndpoint; the simulator delivers, drops, duplicates, reorders, delays and replays frames, and makes the device refuse a frame (link write error)",
             "wall clock and all timers: testing/synctest fake clock; order of same-instant timers: seeded (runtime overlay)",
             "goroutine scheduling: one P, no time-slice pre-emption (runtime overlay), GC off during a run; seeded runtime.Gosched at verif schedule points and at every frame emission",
             "crypto randomness (pkg/rand): seeded stream, one-shot queue to place initial sequence numbers",
             "runtime.gopark/goready + amd64 assembly of pkg/sleep: channel parker (verif hook)", "log output: discarded"]
NET_ASSUME = ["a clean batch is evidence, not proof", "workers whose variant starts with netsimx: run the same harness against /repo's working tree instrumented at build time with a schedule point before every synchronising statement (tools/autoyield); all other workers have schedule points only at the hand-placed hook sites, frame emissions and clock reads", "true parallel data races are invisible to a one-P cooperative scheduler",
              "link endpoints hand the stack packets whose first view holds all headers, as every shipped link endpoint does"]

PROPS["C01"] = dict(
    engine="netsim", level="exploration",
    quick=dict(runs=24000, workers=16, stall_s=60, variants=["tcpab", "tcpab", "netsimx:tcpab", "window"]),
    thorough=dict(budget_s=900, workers=16, stall_s=120, variants=["tcpab", "tcpab", "netsimx:tcpab", "window"]),
    rule="(three quarters of the workers) one evaluation = one seeded run of two real stacks joined by the simulated wire: 1-3 TCP connections, data both ways at once (position-keyed "
         "bytes), random write/read chunking and reader stalls, per-run swarm configuration (IPv4/IPv6, SACK per side, Reno/CUBIC, MTU 68-9000, "
         "send/receive buffers 1 KB-1 MB, initial sequence numbers placed just below 2^31/2^32 on either side), wire faults drop/duplicate/reorder/"
         "delay/stale-replay with a finite budget, seeded yields; then a fault-free drain. non-trivial = at least one fault fired and a retransmission was "
         "seen on the wire; distinct = distinct hash of the full event log (every emitted and injected frame with its fake timestamp). (one quarter of the "
         "workers) the scripted-peer variant: one connection against a raw peer that acknowledges at arbitrary points (also inside a segment), shrinks and "
         "reopens its window, sends out-of-order, duplicate and beyond-window segments, with MSS/window-scale/timestamp/SACK options drawn per run",
    expected_probes=["retransmission_seen", "sack_block_emitted", "segment_straddles_2^31", "segment_straddles_2^32", "zero_window_advertised", "acks_sent", "out_of_order_segments"],
    real=NET_REAL, stubs=NET_STUBS, assumptions=NET_ASSUME,
    hang_is_violation=True,
    level_text="seeded search over fault schedules x interleavings x configurations against the real code of both stacks; after every Read the bytes "
               "returned are compared with the writer's stream at that offset and the count with what the writer's Writes accepted; nothing may follow "
               "end-of-stream; evidence, not proof",
    level_note="timestamps are always negotiated between two of these stacks (the timestamps-off cases come from the scripted-peer checks); a replayed "
               "final ACK of a finished connection legitimately validates as a SYN cookie and yields a fresh silent connection, which the harness closes",
    interleaving_measure="hash of the event log (frames emitted/injected with fake timestamps), which changes with every schedule, fault and yield decision",
)

PROPS["C02"] = dict(
    engine="netsim", level="exploration",
    quick=dict(runs=16000, workers=16, stall_s=60, variants=["", "", "netsimx:", "dropenum"]),
    thorough=dict(budget_s=900, workers=16, stall_s=120, variants=["", "", "netsimx:", "dropenum"]),
    rule="(three quarters of the workers) one evaluation = one seeded run of the C01 world under the statement's fault model: a bounded number (1-6) of drops of non-RST packets of the "
         "exchange (handshake, data, pure ACK, window update, FIN), no network delay (whatever is in flight arrives before the clock moves), all close "
         "orders (one-sided and simultaneous Shutdown, half-close then more data, Close with and without unread data, Close during handshake), reader "
         "stalls; then a fault-free drain of up to 400 simulated seconds (RFC 6298 back-off to the 60 s cap plus 63 s of handshake) and, for anything "
         "unfinished, 3 more simulated hours to tell 'permanently quiet' from 'slow'; (variant dropenum, a quarter of the workers) fault positions "
         "instead of fault rates: one canonical exchange - the applications connect, write 0/1/3000/20000 and 0/2000 bytes, shut down or close, read "
         "to the end; SACK on/off, Reno/CUBIC, default or 4 KB receive buffer - on a benign zero-delay wire that loses exactly the i-th, or the i-th "
         "and the j-th, non-reset frame emitted in the run (i, j < 64, drawn per seed), judged by the same drain and oracles. non-trivial = a fault "
         "fired and a retransmission was seen; distinct = distinct event-log hash",
    expected_probes=["dir_complete", "dir_failed-explicitly", "dir_reader-closed", "zero_window_advertised", "retransmission_seen", "known_finding_F3", "enumerated_drops_fired"],
    real=NET_REAL, stubs=NET_STUBS, assumptions=NET_ASSUME + [
        "a reset is never retransmitted by TCP and is not among the packets the statement lists: resets are not dropped by this check"],
    hang_is_violation=True,
    level_text="seeded search over drop schedules x close orders x interleavings x configurations; each direction must end complete (every accepted byte "
               "read, then end-of-stream, never data after it) or with an explicit error on some side; a direction that is neither, with the wire empty and "
               "not a single frame in 3 further simulated hours, is a silent stall; evidence, not proof",
    level_note="the verdict rests on 'permanently quiet', not on the exact value of the 400 s bound; known finding F3 (no zero-window probe) is reported as "
               "KNOWN-FINDING by signature (sender idle with data, last window seen 0, receiver's last segment re-opened the window), any other stall is a violation",
    interleaving_measure="hash of the event log (frames emitted/injected with fake timestamps)",
)

PEER_STUB = ["the remote host: a scripted raw peer whose packets are built and parsed by an independent codec (netsim/codec), not by protocol/header"]

PROPS["C13"] = dict(
    engine="netsim", level="exploration",
    quick=dict(runs=96000, workers=16),
    thorough=dict(budget_s=600, workers=16),
    rule="one evaluation = one seeded history of 5-60 steps against one real stack: single ICMPv4/ICMPv6 echo requests (identifier/sequence corners and "
         "uniform, payload 0..MTU-28 with odd/even and boundary lengths, IPv4 ones optionally as two out-of-order fragments, one/fd-scatter/two-view "
         "delivery), bursts of 1-30 requests pending at once, requests to foreign/broadcast addresses and to a second address of the stack that is "
         "added and removed during the run (answered iff currently assigned), unsolicited replies and other ICMP types, clock advances; non-trivial = at least one request was answered; distinct = distinct event-log hash",
    expected_probes=["answered", "burst_over_queue_capacity", "fragmented_request", "address_added", "address_removed", "requests_to_the_second_address",
                     "primary_address_removed", "link_write_faults_armed"],
    real=NET_REAL, stubs=NET_STUBS + PEER_STUB, assumptions=NET_ASSUME + [
        "the property does not quantify over schedules: yield perturbation is off in the gating runs"],
    hang_is_violation=True,
    level_text="seeded search over request histories; every emitted echo reply must mirror exactly one not-yet-answered request (identifier, sequence, "
               "payload, swapped addresses; checksum verified by the C06 monitor), requests to addresses the stack does not own produce nothing, and a burst "
               "with at most ten requests pending is answered completely (more than ten: at least ten); evidence, not proof",
    level_note="the ten-slot bound is taken from the statement; IPv6 echo replies are produced inline and are simply all required",
)

PROPS["C06"] = dict(
    engine="netsim", level="exploration",
    quick=dict(runs=48000, workers=16, stall_s=60,
               variants=["addr", "addr", "addr", "netsimx:addr", "udp", "udp", "tcpab", "tcpab", "echo", "handshake", "window", "recovery", "netsimx:demux", "neigh", "hostile", "app"]),
    thorough=dict(budget_s=900, workers=16, stall_s=120,
                  variants=["addr", "addr", "addr", "netsimx:addr", "udp", "udp", "tcpab", "tcpab", "echo", "handshake", "window", "recovery", "netsimx:demux", "neigh", "hostile", "app"]),
    rule="one evaluation = one seeded run of one of eleven scenarios, each worker process driving one of them: (addr, a quarter of the workers) one real "
         "stack with three interfaces - two Ethernet-like ones needing address resolution, each either a simulated NIC or the repository's fd-based "
         "endpoint over a simulated descriptor, and a point-to-point one - two to three addresses per interface (IPv4 and IPv6) and a route table drawn "
         "per run (random subset of direct, gateway, overlapping /8-/16-/24 and competing default routes, in administrator order or shuffled); UDP "
         "datagrams of 0-1400 bytes (odd, even, zero) from unbound, wildcard-bound and specifically bound sockets and active TCP opens to on-link, "
         "gateway-routed, unroutable and IPv6 destinations, inbound echo requests, SYNs to closed and listening ports and stray ACKs from on-link hosts "
         "and from far hosts whose frames come from the gateway's link address; neighbours answer every ARP request/neighbour solicitation with a link "
         "address of their own; clock advances past the 60 s neighbour-entry lifetime; (the other ten) the scenarios of C01/C02 (two real stacks, lossy "
         "wire), C03, C04, C05, C07, C09, C11, C12, C13 and C20 run unchanged with their own oracles muted, for the frames they make the stack emit; "
         "in every scenario every emitted frame is decoded by the independent RFC-derived codec. non-trivial = at least one frame was decoded and "
         "judged; distinct = distinct event-log hash",
    expected_probes=["frames_decoded", "source_address_checked", "udp_frames_checked", "answers_checked", "syn_frames_checked", "destination_mac_checked",
                     "reply_mac_checked", "sent_through_gateway", "sent_on_link", "no_route", "resolution_requests_answered", "neighbour_solicitations_answered",
                     "fd_based_links", "ethernet_frames_written"],
    real=NET_REAL + ["protocol/link/fdbased (endpoint.go: Ethernet framing, receive scatter, dispatch loop)", "protocol/link/rawfile (through the verif seam)",
                     "protocol/link/loopback (C20 scenario)"],
    stubs=NET_STUBS + PEER_STUB + ["file descriptor of the fd-based endpoint: write/writev/readv are served by the simulator through the rawfile seam"],
    assumptions=NET_ASSUME + [
        "channel links (protocol/link/channel) are not driven: the simulated NIC implements the same LinkEndpoint interface and records the same arguments",
        "for a socket bound to a specific local address the reference takes the first matching route entry whose interface owns that address",
        "answers (echo reply, SYN-ACK, reset) are required to go back through the interface and to the link address the answered packet came from",
        "the stack does not fragment on output and no property bounds a frame by the link MTU: frames larger than the MTU are counted, not judged"],
    hang_is_violation=True,
    level_text="seeded search; every frame leaving a stack in any scenario must decode under the independent codec (length fields, IPv4 header checksum, "
               "ICMP/UDP/TCP checksums with pseudo-header, TCP option syntax and padding, different IP identifiers on consecutive large packets of a flow) "
               "and carry a source address assigned to the emitting interface; in the addressing scenario the emitting interface, source, destination, "
               "ports and - on Ethernet links, read from the Ethernet header the real fd-based endpoint wrote - both link addresses are compared with a "
               "reference computed from the statement (first matching route entry; next hop = gateway or destination); evidence, not proof",
    level_note="violations of the other properties observed while their scenarios run under C06 are counted (reach probe other_property_*) and not reported here",
    technique="deterministic simulation: seeded histories over real stacks on simulated links and a simulated file descriptor, an RFC-derived independent "
              "decoder as frame oracle, a route-table reference model for addressing",
)

PROPS["C03"] = dict(
    engine="netsim", level="exploration",
    quick=dict(runs=96000, workers=16),
    thorough=dict(budget_s=600, workers=16),
    rule="one evaluation = one seeded history of 3-25 independent episodes against one real stack with a listener on port 80 (normal or SYN-cookie mode, "
         "IPv4/IPv6): passive opens (peer ISS uniform and wrap-adjacent; SYN options drawn from a grammar of MSS/WS/TS/SACK-permitted/NOP/EOL/unknown "
         "kinds/invalid lengths; SYN retransmission; final ACK correct or wrong by +-1..3, small, +-2^31, uniform; data on the ACK), active opens with "
         "the stack's own ISS pinned through the pkg/rand seam (SYN-ACK with right/wrong ack, reset with right/wrong ack, simultaneous open), segments "
         "of every flag combination for ports with no socket, and non-handshake segments at the listener; non-trivial = at least one correct handshake "
         "and one wrong-ACK or stray episode; distinct = distinct event-log hash",
    expected_probes=["correct_handshake", "wrong_final_ack", "active_correct", "active_wrong_ack", "active_refused", "simultaneous_open", "stray_segment", "stray_reset", "syn_retransmitted"],
    real=NET_REAL, stubs=NET_STUBS + PEER_STUB, assumptions=NET_ASSUME + [
        "in cookie mode only wrong acknowledgement numbers whose invalidity does not depend on the cookie secret are generated (offsets 4..1000 and +-2^31); "
        "a forged cookie is accepted with probability 2^-28 by construction of SYN cookies and is not what this check looks for"],
    hang_is_violation=True,
    level_text="seeded search over handshake histories; Accept/Connect may succeed only after an ACK/SYN-ACK acknowledging exactly ISS+1, a wrong one is "
               "answered (outside cookie mode) by exactly one reset whose sequence number is that acknowledgement number, a segment for a port with no "
               "socket draws exactly one reset acknowledging it (sequence 0 without ACK), a reset is never answered; evidence, not proof",
    level_note="'a correct handshake does yield a connection' is asserted only for loss-free handshakes whose third segment is a bare ACK (a data-bearing "
               "third segment may be dropped and retransmitted: the statement only restricts when a connection may be handed out)",
)

PROPS["C04"] = dict(
    engine="netsim", level="exploration",
    quick=dict(runs=9600, workers=16, stall_s=60),
    thorough=dict(budget_s=900, workers=16, stall_s=120),
    rule="one evaluation = one seeded history of 20-200 steps on one connection between a real stack and the scripted peer (opened actively or passively; "
         "peer MSS absent/1/88/536/1460/65535, window scale absent/0..14, timestamps, SACK, MTU 576-9000, buffers 4 KB-1 MB, Reno/CUBIC). Sender role: "
         "application writes of 1 B-70 KB; peer ACKs everything / half of it (also inside a segment) / repeats, with windows 0, 1, tiny, uniform, 65535; "
         "ICMP fragmentation-needed / packet-too-big with smaller MTUs. Receiver role: in-order in-window data, segments wholly beyond the right edge "
         "(distinguishable content), duplicates, out-of-order segments; the application reads, stalls until the window is 0, drains. non-trivial = data "
         "flowed and (sender) more than two ACKs were sent or (receiver) the application read data; distinct = distinct event-log hash",
    expected_probes=["acks_sent", "zero_window_offered", "packet_too_big", "in_window_segments", "beyond_window_segments", "out_of_order_segments",
                     "reader_stalled_until_zero_window", "window_reopened", "zero_window_advertised"],
    real=NET_REAL, stubs=NET_STUBS + PEER_STUB, assumptions=NET_ASSUME,
    hang_is_violation=True,
    level_text="seeded search over window/ACK/MSS/MTU histories; every data segment must end at or before the largest right edge the peer has offered so far "
               "(after scaling), carry at most the peer's MSS (536 if none) and fit the path MTU told to the stack; the stack's own advertised right edge "
               "never moves left by 2^scale or more, in-order in-window data is acknowledged, data sent only beyond the edge is never returned by Read, "
               "a stalled reader closes the window and draining it re-opens it without peer traffic; evidence, not proof",
    level_note="the largest-edge-ever bound is sound when the script shrinks the window and tight when it does not; segments queued before a packet-too-big "
               "message may still leave at the old size within the same step",
)

PROPS["C05"] = dict(
    engine="netsim", level="exploration",
    quick=dict(runs=64000, workers=16, stall_s=60),
    thorough=dict(budget_s=900, workers=16, stall_s=120),
    rule="one evaluation = one seeded history of 10-120 steps on one connection (Reno or CUBIC, SACK and timestamps on/off, MSS 536/1000/1460) in which "
         "the stack sends flights of 1-200 segments to a scripted immediate-ACK receiver; the simulator decides which emitted segments the receiver "
         "never sees (every loss position, multiple losses, lost retransmissions), when it reads its inbox (delayed/bursty ACKs), injects extra "
         "duplicate and window-changing ACKs, and advances the clock from milliseconds to 130 s of silence; non-trivial = a retransmission was seen and "
         "the peer sent at least one ACK; distinct = distinct event-log hash",
    expected_probes=["fast_retransmits", "third_dup_ack", "rto_retransmissions", "silent_periods", "backoff_depth_ge_3", "backoff_depth_ge_5", "sack_blocks_sent", "dup_acks_sent"],
    real=NET_REAL, stubs=NET_STUBS + PEER_STUB, assumptions=NET_ASSUME,
    hang_is_violation=True,
    level_text="seeded search over ACK/loss/timing histories with emission timestamps taken on the fake clock inside the link endpoint: (1) the third "
               "duplicate ACK of a connection's first loss episode re-emits the segment at that number in the same step; (2) while the peer is silent only "
               "the first unacknowledged segment is retransmitted, never sooner than 200 ms after its previous transmission, and the interval at least "
               "doubles between successive retransmissions; (3) at most 10 segments before the first ACK and, with Reno, segments in flight <= 10 + "
               "segments acknowledged + duplicate ACKs so far; evidence, not proof",
    level_note="(1) is asserted only before any earlier recovery or timeout on the connection, because NewReno's 'recover' rule (RFC 6582) legitimately "
               "suppresses fast retransmit for data already in flight; the first interval of a silent period is excluded from the doubling test because an "
               "ACK that arrived before the silence restarts the timer; timing clauses are not asserted after a fast retransmit (the statement's 'otherwise')",
)

PROPS["C14"] = dict(
    engine="netsim", level="exploration",
    quick=dict(runs=24000, workers=16, stall_s=60, variants=["tcpab", "tcpab", "window", "recovery"]),
    thorough=dict(budget_s=900, workers=16, stall_s=120, variants=["tcpab", "tcpab", "window", "recovery"]),
    rule="the C01, C04 and C05 scenarios re-run with initial sequence numbers forced (not merely swarmed) so that the stack's own ISS (placed through the "
         "pkg/rand seam), the passive side's ISS (SYN-cookie constant measured in a pre-pass) or the scripted peer's ISS lies 0..60000 below 2^31 or "
         "2^32, i.e. the SYN, the first data byte, retransmitted segments, SACK blocks, window edges and the FIN straddle the boundary in some run; "
         "oracles are those of C01/C04/C05 plus a metamorphic one: every run that holds is run again as its neutral twin - same seed, steps and yield "
         "tape, the same placements counted back from mid-space values (0x30000000 / 0x60000000) - and the TCP segments the stacks emit, with sequence, "
         "acknowledgement and SACK numbers taken relative to the initial sequence number of their direction (learnt from the SYNs on the wire), must be "
         "the same segments at the same simulated instants; non-trivial as in the underlying scenario; distinct = distinct event-log hash",
    expected_probes=["neutral_twin_runs", "tcp_segments_compared", "segment_straddles_2^31", "segment_straddles_2^32", "sack_block_straddles_2^32", "own_stream_crossed_2^31", "own_stream_crossed_2^32",
                     "peer_stream_crossed_2^31", "peer_stream_crossed_2^32", "retransmission_seen", "fast_retransmits"],
    real=NET_REAL, stubs=NET_STUBS + PEER_STUB, assumptions=NET_ASSUME + [
        "only the second sentence of the property (every TCP property holds unchanged when initial sequence numbers sit just below 2^31 or 2^32) is "
        "decided; the first sentence - the arithmetic functions give the serial-number answer for all operand tuples - is a pure function of its input "
        "and outside what a simulation can address (DESIGN.md sections 6 and 7)"],
    hang_is_violation=True,
    level_text="seeded search with forced ISS placement: the behavioural consequence of correct modulo-2^32 arithmetic (stream integrity, window and MSS "
               "compliance, loss recovery and congestion window) is checked while data, retransmissions, SACK blocks and window edges cross the wrap "
               "points, and each run is compared segment by segment with its twin started mid-space; evidence counts how many runs actually crossed each "
               "boundary (reach probes taken from the wire); evidence, not proof",
    level_note="restricted to the second sentence of the statement; C02's liveness oracle is not re-run here (its known findings are independent of where the "
               "sequence space starts), but the twin-run comparison sees any stall, delay or extra retransmission that exists only next to the wrap; the "
               "comparison is sound because a run is a deterministic function of (seed, configuration, steps, tape) and the harness addresses the streams "
               "by offsets only - on the unchanged tree 24000 of 24000 twins agree segment for segment",
)

PROPS["C11"] = dict(
    engine="netsim", level="exploration",
    quick=dict(runs=48000, workers=16, stall_s=60, variants=["", "", "", "netsimx:"]),
    thorough=dict(budget_s=900, workers=16, stall_s=120, variants=["", "", "", "netsimx:"]),
    rule="one evaluation = one seeded history of 10-120 steps against one real stack with up to six UDP sockets on distinct ports (IPv4 bound to a "
         "specific address / wildcard, dual-stack IPv6 wildcard, IPv4 and IPv6 connected, unbound sender): datagrams of 0..65507 bytes (boundary and "
         "uniform lengths, every payload self-identifying) from two peers and two source ports, single arrivals, arrivals whose processing overlaps the "
         "next step, bursts of 2-40 that overflow the receive buffer, wire duplicates; reads by the simulator and by per-socket reader goroutines racing "
         "delivery under seeded yields; Shutdown(Read), Close; writes of 0..65540 bytes to IPv4, IPv6 and v4-mapped destinations; non-trivial = at least "
         "one datagram was read; distinct = distinct event-log hash",
    expected_probes=["datagrams_read", "dropped_whole", "read_shutdown", "writes", "write_failed"],
    real=NET_REAL, stubs=NET_STUBS + PEER_STUB, assumptions=NET_ASSUME + [
        "sockets are on distinct ports here; which socket a datagram reaches is C09's subject",
        "a datagram must be kept only if at most 2 KB were unread on that socket when it arrived (far below any receive buffer); otherwise it may be dropped whole"],
    hang_is_violation=True,
    level_text="seeded search over arrival/read/close histories and interleavings; every Read result equals the payload of exactly one not-yet-returned "
               "arrival to that socket, in arrival order, with the true source address and port; skipped arrivals were dropped whole; nothing that arrived "
               "after Shutdown(Read) is returned; every successful Write produced exactly one packet carrying exactly those bytes to the right destination "
               "(lengths and checksums verified by the C06 monitor), a failed one none; evidence, not proof",
    level_note="the RFC 768/8200 rule that a computed checksum of zero is sent as 0xFFFF is counted (udp_zero_checksum_sent_as_zero), not gated: it verifies "
               "arithmetically and the statement does not mention it",
)

PROPS["C09"] = dict(
    engine="netsim", level="exploration",
    quick=dict(runs=96000, workers=16, stall_s=60, variants=["", "", "", "netsimx:"]),
    thorough=dict(budget_s=900, workers=16, stall_s=120, variants=["", "", "", "netsimx:"]),
    rule="one evaluation = one seeded history of 10-80 steps against one real stack with two NICs, three local addresses (two on NIC 1, one on NIC 2), an "
         "unassigned address, optionally promiscuous mode or AddSubnet on NIC 1, three ports and three remote (address, port) pairs: UDP sockets bound to "
         "wildcard/specific addresses or connected (optionally bound or connected through an explicit interface, or bound to the wildcard and then "
         "connected), TCP listeners (wildcard/specific), TCP connections created by real handshakes with the scripted peer (a SYN whose best match is an "
         "open listener must draw SYN|ACK), endpoints registered directly with the demultiplexer in all four binding shapes on a port of their own (so "
         "wildcard and specific bindings of one port coexist, which the port manager forbids for sockets), closes in any order, close-and-reopen of the "
         "same binding with no settling in between (the closed listener's goroutine is still winding down), a close racing with a delivery already handed to "
         "the stack (the closed socket must end up empty), removal and re-assignment of an address, interleaved with UDP datagrams and in-window TCP data segments on either NIC whose 4-tuples are aimed at, or one coordinate "
         "beside, an open socket; after every packet every open socket is read; non-trivial = at least one packet reached its socket; distinct = "
         "distinct event-log hash",
    expected_probes=["delivered_to_winner", "to_address_not_owned", "tcp_no_match_reset", "tcp_connections", "segment_for_closing_connection",
                     "closed_and_reopened_at_once", "directly_registered_endpoints", "sockets_bound_to_an_interface",
                     "sockets_connected_through_an_interface", "wildcard_bound_then_connected", "address_removed", "address_added_again",
                     "close_racing_with_delivery", "dual_stack_sockets"],
    real=NET_REAL, stubs=NET_STUBS + PEER_STUB, assumptions=NET_ASSUME + [
        "a TCP connection the application has closed still occupies its 4-tuple while its closing exchange runs; what answers a segment for it is not asserted",
        "a socket tied to an interface (bound or connected with an explicit NIC) matches only packets arriving on that interface",
        "whether a UDP socket bound to the wildcard address and then connected still hears its peer on the other local addresses is not asserted "
        "(both readings of 'its addresses' are defensible); such packets are injected but not judged",
        "one address of NIC 1 is removed and assigned again during the run (not in promiscuous/subnet configurations); while a connected UDP socket or a "
        "TCP connection that used it at removal time is still around, the stack documents that the address lingers: packets for it are then injected "
        "but not judged; once those users are gone it must stop receiving, and binding to it is judged only in that state"],
    hang_is_violation=True,
    level_text="seeded search over socket sets and inbound 4-tuples against a reference function written from the statement (destination address owned by "
               "the receiving interface, or promiscuous/subnet; then connected before bound, specific local address before wildcard): exactly the winner "
               "can read the payload, with the true sender, exactly once; everybody else has nothing to read; a TCP segment matching no socket draws "
               "exactly one reset, one for an address the interface does not own draws nothing; evidence, not proof",
    level_note="registration and delivery race at step granularity plus seeded yields; each registration is one critical section of the demultiplexer, so a "
               "finer grain adds nothing this one-P scheduler can see (DESIGN.md section 11)",
)

PROPS["C12"] = dict(
    engine="netsim", level="exploration",
    quick=dict(runs=96000, workers=16, stall_s=60, variants=["", "", "", "netsimx:"]),
    thorough=dict(budget_s=900, workers=16, stall_s=120, variants=["", "", "", "netsimx:"]),
    rule="one evaluation = one seeded history of 10-100 steps against one real stack on an Ethernet-like link that requires address resolution (on-link "
         "neighbours plus a gateway for off-link destinations): UDP sends to resolved/unresolved next hops (the write blocks, is retried when its "
         "notification channel closes), ARP replies with the current or a new link address, arriving at once, at the 1 s retry instants, just before/"
         "after the 3 s budget, or never; ARP requests for the stack's own, a foreign and an unassigned address; IPv6 neighbour solicitations for own and "
         "foreign targets; clock advances across the 1 s/3 s/60 s boundaries; optionally 600 announcing hosts that wrap the 512-entry cache; non-trivial "
         "= the stack sent at least one request and one data frame after resolution; distinct = distinct event-log hash",
    expected_probes=["arp_requests", "data_frames_after_resolution", "waiting_send_proceeded", "waiting_send_failed", "link_address_changed",
                     "requests_for_own_address", "requests_for_other_address", "neighbour_solicitations", "cache_ring_wrapped"],
    real=NET_REAL, stubs=NET_STUBS + PEER_STUB, assumptions=NET_ASSUME + [
        "unconnected UDP sockets are used, so every send performs a fresh route and neighbour lookup; a TCP connection keeps the link address it "
        "resolved at connect time for its lifetime, which the statement does not address",
        "after a cache overflow the retry-count and spacing clauses are not asserted (an evicted unresolved entry legitimately starts a new resolution)"],
    hang_is_violation=True,
    level_text="seeded search over request/reply/timeout histories; a reply is emitted iff the target is one of the stack's addresses, with the interface's "
               "link address, addressed to the requester; no IPv4 packet for a next hop is on the wire before a mapping for it was delivered, it goes to "
               "the mapping most recently delivered and not to one older than 60 s; requests are broadcast, at least 1 s apart, at most 3 per resolution; "
               "a waiting send proceeds or fails with no-link-address not before 3 s after the resolution's first request and is never left waiting; "
               "evidence, not proof",
    level_note="IPv6 is covered for the answering half (solicitation -> advertisement); the waiting/failure half is exercised over ARP",
)

PROPS["C07"] = dict(
    engine="netsim", level="exploration",
    quick=dict(runs=48000, workers=16, stall_s=120),
    thorough=dict(budget_s=900, workers=16, stall_s=120, variants=["", "", "", "fragenum"]),
    rule="one evaluation = one seeded barrage of 50-400 (thorough: up to 2000) frames against a victim stack with a TCP listener, an established TCP "
         "connection holding unread data and unacknowledged data, a bound dual-stack and a connected UDP socket, IPv4+IPv6+ARP on a link that requires "
         "resolution, delivered as one view or in the fd-based 128/256/... scatter: structure-aware mutations of frames a peer could legitimately send "
         "(truncation at every header boundary +-1, bit flips, version/IHL/total-length/fragment/data-offset/option-length/UDP-length/next-header fields "
         "set to 0, 1, max, actual+-1, contradictory flags, garbage tails), sequences of three fragments from the grid offset {0,8,16,24,65528} x length "
         "{0,8,16,24} x MF {0,1} (sampled in quick; in the thorough tier one worker in four enumerates all 64000), longer random fragment sequences "
         "over several ids with clock jumps across the 30 s timeout, ICMP errors quoting truncated inner headers, and noise; then the serve probe. "
         "non-trivial = at least one mutated frame or fragment triple was injected; distinct = distinct event-log hash",
    expected_probes=["mutated_frames", "fragment_triples", "random_fragment_sequences", "noise_frames", "served_after_barrage"],
    real=NET_REAL, stubs=NET_STUBS + PEER_STUB, assumptions=NET_ASSUME + [
        "received segments are not checksum-verified by this stack, so a hostile in-window segment legitimately injects bytes into or resets the "
        "pre-existing connection: nothing is asserted about its content, it only must not crash or hang anything",
        "the real fd-based link endpoint (Ethernet framing, runt frames, read errors through the rawfile seam) is not part of this check yet"],
    hang_is_violation=True,
    level_text="seeded search over hostile inbound histories (the fragment grid is enumerated completely in the thorough tier): the worker must not die "
               "(a panic on the delivering goroutine is caught in-process and minimised; one in a stack goroutine kills the worker, which the runner "
               "confirms by re-running the seed alone), must not hang (watchdog in the runner), and afterwards an echo request is answered, a new "
               "three-way handshake to the listener completes with a byte flowing each way, and a datagram to the bound socket is read back intact; "
               "evidence, not proof",
    level_note="with one P and no time-slice pre-emption a spinning stack goroutine stops the whole worker; the runner's watchdog (no progress marker for "
               "stall_s seconds) kills it and re-runs that seed alone",
)

PROPS["C20"] = dict(
    engine="netsim", level="exploration",
    quick=dict(runs=4800, workers=16, stall_s=60),
    thorough=dict(budget_s=900, workers=16, stall_s=120),
    rule="one evaluation = one seeded client session against the bundled HTTP/WebSocket server, all inside one bubble over one real stack whose NIC is "
         "the repository's loopback link (inline delivery, 64 KB MTU) or a hairpin link through the simulated wire (MTU 576 or 1500, FIFO, frames handed "
         "up in one view or the fd-based scatter): 1-6 HTTP requests by the bundled client (GET/HEAD/POST/PUT; registered and unregistered paths; 0-3 "
         "headers; bodies of 0-300 bytes in the grammar the parser accepts, i.e. without ': '; every message below one MSS), then 1-8 text messages over "
         "the bundled WebSocket client (unmasked) and, in half of the runs, 1-8 more from a harness-side RFC 6455 client with masked frames and random, "
         "all-zero and all-ones keys; message lengths 0, 1, 124-128, 1000, 65534-65537, uniform < 3000 and up to 300 KB; the server answers each message "
         "with its reversal, so both directions carry distinguishable bytes; in half of the runs messages also come in bursts: the server follows "
         "its reply with up to two further, mostly shorter, messages, and the bundled client sends 2-4 small messages before reading any reply; the "
         "harness-side client sends 30% of its frames unmasked between masked ones; client first. non-trivial = at least one request or message "
         "completed; distinct = distinct hash of the session's semantic events (methods, paths, message lengths)",
    expected_probes=["http_requests", "unregistered_path_requests", "ws_messages_bundled_client", "ws_messages_masked_raw_client", "raw_upgrades",
                     "ws_len_7bit", "ws_len_16bit", "ws_len_64bit", "ws_client_bursts", "ws_server_burst_messages", "ws_unmasked_raw_frames"],
    real=NET_REAL + ["protocol/application/http", "protocol/application/websocket", "protocol/transport/tcp/client", "protocol/link/loopback", "internal/socket"],
    stubs=NET_STUBS + ["stack/stackinit: no TAP device and no host-interface probing under tag verif; the harness builds stack.Pstack itself"],
    assumptions=NET_ASSUME + [
        "the property does not quantify over schedules or fault sequences: wire faults and yield perturbation are off",
        "the client's API exposes the response body but no status code; the status clause is not observable through it and is not asserted",
        "frame bytes of the hairpin link are left out of the event-log hash (the bundled client emits headers in map-iteration order)"],
    hang_is_violation=True,
    level_text="seeded search over request/message histories and two link configurations with the real TCP underneath: the handler registered for the "
               "path sees the method, every header and the body that were sent, exactly once; an unregistered path invokes no handler; the client "
               "receives the body the handler produced; Sec-WebSocket-Accept equals base64(SHA-1(key + RFC 6455 GUID)) computed independently; every text "
               "message arrives byte-identical and in order in both directions; server frames use the shortest length form; evidence, not proof",
    level_note="the HTTP mux is a process global that panics on re-registration: handlers are registered once per worker process and forward to the current run",
)

def _add(prop, rule="", probes=(), assume=(), drop_assume=(), level=""):
    """Later extensions of a scenario (waves 4-6 of seeded changes), kept apart from the first description."""
    d = PROPS[prop]
    if rule:
        d["rule"] = d["rule"] + " Extensions: " + rule
    d["expected_probes"] = list(d["expected_probes"]) + [x for x in probes if x not in d["expected_probes"]]
    d["assumptions"] = [a for a in d["assumptions"] if not any(k in a for k in drop_assume)] + list(assume)
    if level:
        d["level_text"] = d["level_text"].replace("; evidence, not proof", "; " + level + "; evidence, not proof")


_add("C18", rule="at every step of a run (whenever the whole bubble is parked) no task may be asleep inside TryLock or Unlock, whether or not it is woken later",
     level="TryLock/Unlock never sleep, judged per step")
_add("C19", rule="at every step only the fetcher inside a blocking Fetch may be asleep: a task asleep inside Assert, Clear or Fetch(false) is a violation at that step",
     level="Assert/Clear/Fetch(false) never sleep, judged per step")
_add("C17", rule="masks come from a six-bit universe; entries backed by an unbuffered channel with a parked waiter (the notification must reach it); "
     "entries that keep the library's own channel callback", probes=["waiter_parked_on_unbuffered_channel"])
_add("C10", rule="(netsim:demux) dual-stack IPv6 wildcard sockets (reserve for both protocols), binds through an interface that does not exist (must leave "
     "nothing behind), a port inside the ephemeral range held while unbound sockets connect from a simulator-chosen search offset, active TCP opens from "
     "unbound, bound and dual-stack sockets that the peer refuses or accepts (Connect releases the reservation; a Connect refused because its 4-tuple is "
     "taken must leave the socket's reservation to be released by Close - finding F20), back-to-back duplicate SYNs",
     probes=["tcp_active_opens", "tcp_connections_opened_actively", "ephemeral_port_checked", "dual_stack_sockets", "bind_to_unknown_interface_refused",
             "tcp_active_open_refused_locally"],
     drop_assume=["TCP active-open (Connect) reservations are not covered"],
     assume=["socket-level clause (variant netsim:demux, a quarter of the workers): the C09 world driven mostly with open/close/reopen of UDP sockets "
             "(wildcard/specific, connected, interface-bound, dual-stack), TCP listeners and active TCP opens; a Bind(+Listen) must fail iff an open socket holds a "
             "conflicting reservation, immediately after the Close of the previous holder returns; an ephemeral port given to a connecting socket must not be "
             "reserved by an open socket"])
_add("C09", rule="dual-stack IPv6 wildcard UDP sockets, binds through an unknown interface, a bound port inside the ephemeral range, TCP connections opened "
     "actively by the stack (unbound, bound to a specific or the wildcard address) and kept as sockets of the scenario, back-to-back duplicate SYNs, clock "
     "advances of 70 s (past TIME-WAIT and the neighbour lifetime), packets for a removed address that a connected user still references",
     probes=["tcp_connections_opened_actively", "tcp_active_opens", "bind_to_removed_address", "known_finding_F19", "duplicate_syn_back_to_back",
             "packet_for_removed_but_referenced_address"])
_add("C03", rule="resets aimed at the listener, back-to-back duplicate SYNs (one half-open slot), wrong final ACKs on connections without timestamps, "
     "data-bearing final ACKs, strays carrying options; after every episode the listener's half-open slots must be back to their count "
     "(half-open-slots-leaked)",
     probes=["duplicate_syn_back_to_back", "wrong_ack_without_timestamp", "reset_at_listener", "stray_with_options", "listener_noise"])
_add("C04", rule="SYN-cookie listeners, receive buffer resized mid-run (SetSockOpt), peer data sent out of order, segments straddling the right edge (possibly "
     "beginning before rcvNxt: the in-window part must be accepted, the rest never returned), MSS 1000/1400",
     probes=["receive_buffer_resized", "segments_straddling_the_right_edge", "peer_data_out_of_order", "known_finding_F17", "known_finding_F18"])
_add("C05", rule="ACKs that land inside a segment; fast-retransmit eligibility re-established after a timeout episode has been fully acknowledged; the doubling "
     "clause follows timer restarts (lastAdvance)", probes=["acks_inside_a_segment", "backoff_depth_ge_6", "retransmissions"])
_add("C07", rule="valid fragmented transport packets that must still be served (fragvalid), runt Ethernet frames at the real fd-based endpoint (one run in six), "
     "FIN with data ahead of a hole, ICMPv6 errors quoting fragments; a link whose dispatch loop died is a violation (link-dead)",
     probes=["valid_frames", "transport_packets_in_fragments", "fin_with_data_ahead_of_a_hole", "runt_ethernet_frames", "fd_based_links"],
     drop_assume=["the real fd-based link endpoint"],
     assume=["in one run in six the victim's NIC is the repository's fd-based endpoint over a simulated descriptor (Ethernet framing, runt frames; finding F4)"])
_add("C11", rule="a second reader goroutine on the same socket (reads may overlap), sendto on a connected socket, re-connecting a connected socket to another peer "
     "(finding F14), link write errors on sends (the Write must report the failure and emit nothing)",
     probes=["reads_overlapping_another_reader", "reconnects", "sendto_on_connected_socket", "link_write_faults_armed"])
_add("C12", rule="gratuitous and overheard replies, replies of every kind at the ring-size boundary, solicitations to the solicited-node multicast group, IPv6 "
     "sends that wait for neighbour discovery (advertisements with another option first, or from another address of the neighbour), link write errors on requests "
     "and replies (a refused request counts as an attempt), failures older than the entry lifetime",
     probes=["gratuitous_replies", "overheard_replies", "solicitations_to_multicast_group", "ipv6_data_frames_after_resolution", "link_write_faults_armed",
             "requests_refused_by_the_device", "advertisement_with_another_option_first", "advertisement_from_another_address"])
_add("C13", rule="removal and re-assignment of the primary address, link write errors while replies are pending (a refused reply is not owed again)",
     probes=["primary_address_added_again", "requests"])
_add("C20", rule="header values containing ': ', bodies that start with line breaks", probes=["header_values_with_separator", "bodies_starting_with_line_breaks"])
_add("C01", rule="link write errors as a wire fault (the device refuses a frame; the sender's retransmission machinery must recover); one of the applications may "
     "speak first from the accepting side (ServerFirst)")
_add("C02", rule="link write errors count as losses of the frame they refuse")
_add("C14", rule="link write errors are part of the fault mix of the two-stack runs and of their twins")


# wave 7
_add("C01", rule="(netsimx, one worker in four) the same scenario on the build with automatic schedule points before every synchronising "
     "statement of the stack (DESIGN.md 0.1)")
_add("C02", rule="(netsimx, one worker in four) the same scenario on the build with automatic schedule points; 3% of the runs use receive buffers "
     "above 64 KB that are no multiple of the window-scale unit, transfers of 150-300 KB and pausing readers, so that scaled windows really close",
     probes=[])
_add("C03", rule="ACK-bearing segments at the listening port with no handshake in progress must draw one reset (known finding F25, reported only when the run "
     "shows nothing else); in SYN-SENT, segments without SYN (bare ACK, data, FIN-ACK) that acknowledge something else (one reset each); a second SYN with another "
     "sequence number while a passive handshake is half open (the listening port never sends a SYN of its own, no connection comes of it)",
     probes=["active_wrong_ack_without_syn", "second_syn_with_another_sequence_number", "ack_bearing_segment_at_listener", "known_finding_F25"])
_add("C04", rule="active opens whose peer offers a small window (100-20000 bytes) on its SYN-ACK and whose SYN-ACK arrives a second time (finding F23); "
     "ACKs half the sequence space ahead of anything sent", probes=["syn_ack_repeated", "acks_of_data_never_sent"])
_add("C05", rule="the application shuts down its write side while data is outstanding: the FIN is a segment like any other for the initial window, the "
     "segments in flight and 'one segment per timeout'; packet-too-big reports whose MTU is not below the one in use (nothing is thereby acknowledged); a "
     "receiver whose advancing ACKs also change the window; inside a fast-recovery episode three duplicates of a partial ACK cannot leave the segment it "
     "points at untransmitted",
     probes=["fin_segments_seen", "write_side_shut_down", "packet_too_big_without_a_smaller_mtu", "partial_ack_then_three_duplicates"])
_add("C06", rule="the first IPv4 address of NIC 1 is removed and assigned again during the run (finding F26: new sockets must not send from it; sockets bound to it "
     "are not judged meanwhile); echo requests sent through ping sockets (IPv4 and IPv6; finding F24); two networks behind routers that carry the same address on two "
     "different links; one addr worker and the demux worker run on the netsimx build",
     probes=["echo_requests_sent_by_ping_sockets", "ping_frames_checked", "address_removed", "address_assigned_again"])
_add("C07", rule="valid transport packets cut into 10-25 fragments (one view per fragment reaches the transport layer); on a fresh connection whose local "
     "side has shut down writing: three to five identical ACKs that do not cover the FIN, then one that does",
     probes=["transport_packets_in_many_fragments", "duplicate_acks_with_only_a_fin_in_flight"])
_add("C08", rule="(netsim:reasm) IP options (record route in the first fragment only, router alert in every fragment)", probes=["fragments_with_ip_options"])
_add("C09", rule="inbound packets with IP options; UDP sockets that join and leave multicast groups (a group address is assigned to the interface exactly "
     "while a membership lasts); connected UDP sockets connected again (findings F21, F22); two goroutines registering endpoints under one identity at "
     "the same time; one worker in four runs on the netsimx build",
     probes=["packets_with_ip_options", "multicast_groups_joined", "multicast_groups_left", "packets_to_multicast_groups", "udp_sockets_connected_again",
             "registrations_racing_for_one_identity"])
_add("C10", rule="(primsim) a third of the cases keep every operation on one (network, transport, port) so that one port goes through long histories; "
     "(netsim:demux / netsimx:demux) connected UDP sockets connected again to the same or another peer (finding F21)",
     probes=["udp_sockets_connected_again"])
_add("C11", rule="ICMP port-unreachable errors quoting a datagram the socket sent (whatever the following Reads report, no datagram nobody sent); Bind with a "
     "commit function that fails while a datagram for that port arrives; one worker in four on the netsimx build",
     probes=["icmp_errors_for_sent_datagrams", "binds_failing_at_commit"])
_add("C12", rule="a mapping delivered after a failed resolution (late reply, announcement, the neighbour's own request) is what the next send uses; one "
     "UDP socket connected to one neighbour after another; a second IPv4 address that comes and goes (requests for it answered exactly while assigned); "
     "one worker in four on the netsimx build",
     probes=["socket_connected_to_one_neighbour_after_another", "second_address_added", "requests_for_the_second_address"])
_add("C13", rule="requests with IP options and with link-layer padding behind the datagram; fragmented requests of two requesters sharing one IP "
     "identification, fragments interleaved",
     probes=["requests_with_ip_options", "requests_with_link_padding", "interleaved_fragments_of_two_requesters"])
_add("C14", rule="(window variant) ACKs exactly half the sequence space ahead of anything sent, give or take one", probes=[])
_add("C20", rule="the handler must not see headers of earlier requests of the session; bodies and responses containing '%' sequences; in 30% of the runs the "
     "server's replies are sent by a second goroutine while its handler is back in ReadData",
     probes=["bodies_with_percent_signs", "ws_server_sends_while_handler_reads"])


# wave 8
_add("C03", rule="the peer answers late (the SYN or the SYN-ACK has been retransmitted once or twice by then: what acknowledges it is still ISS+1 only); a second wrong "
     "final ACK on the same half-open connection (reset like the first); whatever arrives at the listening port that is no SYN draws nothing but resets "
     "(also resets that carry SYN)",
     probes=["syn_ack_retransmitted_before_the_final_ack", "syn_retransmitted_before_the_answer", "second_wrong_final_ack"])
_add("C04", rule="segments beginning exactly at the right edge (first byte outside); receiver role with the stack's own sender blocked (peer window 0 throughout, "
     "application data queued): the window update after a drain must still go out",
     probes=["segments_beginning_exactly_at_the_right_edge", "stack_send_blocked_by_peer_window"])
_add("C05", rule="application-limited flights acknowledged late and one segment at a time, then silence (one segment per timeout)",
     probes=["stretched_acks_then_silence"])
_add("C06", rule="ping writes whose checksum field the application filled in; (app scenario) hairpin links with an MTU of 65536 and 70000 bytes, so that "
     "full-sized segments approach the 16-bit length limit", probes=["ping_writes_with_a_checksum_filled_in"])
_add("C07", rule="more well-formed datagrams for the bound socket than its receive buffer holds, nobody reading",
     probes=["bound_socket_flooded_beyond_its_buffer"])
_add("C09", rule="(Subnet configurations) the subnet is removed and added again during the run; IPv6 datagrams, which reach the dual-stack wildcard socket of the port "
     "and no socket whose binding covers IPv4 only - among them IPv6 sockets bound to the IPv4-mapped wildcard; when the application closes a connection "
     "the peer completes the closing exchange and must be answered by that connection (not by a reset, not by a listener on the port)",
     probes=["subnet_removed", "ipv6_datagrams_injected", "sockets_bound_to_the_mapped_ipv4_wildcard", "closing_exchange_completed_by_the_peer"])
_add("C10", rule="(netsim:demux) a bound TCP socket whose Connect is refused locally stays open and keeps its port (the same active open is generated again on purpose)",
     probes=["tcp_sockets_left_bound_after_a_refused_connect"])
_add("C11", rule="short frames padded by the link (bytes behind the IP packet are not part of the datagram); two senders using one IP identification, both "
     "datagrams in two fragments, interleaved",
     probes=["arrivals_with_link_padding", "interleaved_fragments_of_two_senders"])
_add("C12", rule="an on-link host whose address ends in 255 (a second on-link network 10.0.4.0/23): resolved like any other neighbour")
_add("C13", rule="requests in 17-40 fragments; a complete fragmented request that reuses the IP identification of a datagram abandoned more than 30 s earlier; "
     "one run in five on a link that declares checksum offload (which covers TCP and UDP, not ICMP)",
     probes=["requests_in_seventeen_or_more_fragments", "identification_of_an_abandoned_datagram_reused", "links_declaring_checksum_offload"])
_add("C02", rule="in half of the runs a writer that found the send buffer full (would-block or a partial write) writes again only after the stack has signalled "
     "EventOut on its wait queue - it sleeps, it does not poll", probes=["writes_waiting_for_writability", "writers_woken_by_writability"])
_add("C03", rule="cookie mode: final ACKs 1..3 above the cookie (known finding F27, reported only when the run shows nothing else)",
     probes=["known_finding_F27"])
_add("C20", rule="upgrade requests whose key is the base64 form of a 6-, 20-, 32- or 52-byte nonce", probes=["ws_keys_of_unusual_length"])


# wave 9
_add("C03", rule="a final ACK presented by another source port of the same host than the one whose SYN was answered (no connection may come of it); "
     "sweeps of 120-400 SYNs to closed ports within one instant, each owed its reset",
     probes=["final_ack_from_another_port", "stray_sweeps"])
_add("C05", rule="receivers whose window holds 3-8 segments, so that the window and not the congestion window limits the flight; liveness: seven silent "
     "seconds with data outstanding and no earlier timeout must show at least one retransmission (no-retransmission-by-timeout); a connection "
     "that has sent a reset is not judged further; duplicate ACKs while only the FIN is outstanding are counted, not judged; the one link write "
     "fault of this scenario: the device refuses the first frame of a silent period (as a rule the first timeout's retransmission), which "
     "counts as a transmission at its instant; the silence after which a missing retransmission is a violation is derived from what the stack "
     "can have measured (RTO <= max(1 s, 5 x age of the connection); three such periods when a frame was refused)",
     probes=["window_limited_receiver", "silent_periods", "timeout_retransmissions_refused_by_the_device"])
_add("C09", rule="15% of the configurations switch spoofing on for an interface (packets for unassigned addresses still reach nobody); ICMP errors "
     "quoting datagrams whose source is not a local address must not be reported to any socket",
     probes=["spoofing_interfaces", "icmp_errors_about_foreign_datagrams"])
_add("C11", rule="strangers (another host, another port, another address family) sending to connected sockets; dual-stack sockets connected to a v4-mapped "
     "peer; two goroutines writing different datagrams on one unconnected socket (each successful Write is one frame, whole, with its own "
     "destination); zero-byte writes are datagrams",
     probes=["strangers_sending_to_connected_sockets", "dual_stack_sockets_connected_to_an_ipv4_peer", "concurrent_writes_on_one_socket"])
_add("C13", rule="a fifth of the runs own an IPv4 subnet (32.1.13.0/24) and are pinged at an unassigned IPv6 address whose first four bytes lie inside it",
     probes=["ipv6_requests_to_an_address_resembling_the_ipv4_subnet"])
_add("C08", rule="(API) must-deliver is suspended only when an upper bound of the bytes held at any moment (fragments handed in, minus those a returned "
     "delivery released) exceeds the high limit - not when the total that went through does",
     probes=["more_bytes_than_the_limit_went_through_without_pressure"])
_add("C19", rule="an assertion made before the waker's current attachment counts: a waker stays asserted across Done and AddWaker")


# wave 10
_add("C01", rule="truncation is judged the moment Read reports end-of-stream: by then everything the writer's writes had accepted before it shut down "
     "has to have been returned (eof-before-data); writes of zero bytes; receive buffers enlarged by the application mid-run",
     probes=["writes_of_no_bytes", "receive_buffers_enlarged"])
_add("C02", rule="'without error when nothing is lost': in a run whose wire never dropped, duplicated, delayed, reordered or refused a frame, on a connection "
     "that no application closed with data still owed in either direction, no socket may report an error (error-without-loss); writes of zero "
     "bytes; receive buffers enlarged mid-run; the final verdict lets every application look at its socket once more (a handshake given up in "
     "silence is an explicit failure); in such a run a side whose application closed with nothing unread and nothing on its way, to which no data "
     "was sent since and which saw no reset from the peer, sends no reset within 2.9 s of the Close (reset-after-orderly-close; the 3-second "
     "abort of finding F9 comes later); a client that answered every SYN-ACK it received, lost all those answers and has nothing "
     "outstanding is half-open, not stalled",
     probes=["runs_without_any_fault", "writes_of_no_bytes", "receive_buffers_enlarged"])
_add("C04", rule="(sender role) the scripted receiver's earlier ACKs are delivered again behind newer ones: they offer nothing new, the largest right edge "
     "ever offered stays what it was (finding F28)", probes=["stale_acks_delivered_again"])
_add("C06", rule="(neighbour scenario) ARP requests relayed by a bridge (the frame's source differs from the ARP sender field); what a reply says and whom "
     "it names as target are judged under C06 as well (reply-wrong-addressee, reply-wrong-content)",
     probes=["arp_requests_through_a_relay"])
_add("C10", rule="(netsim:demux) a fifth of the TCP listeners are IPv6 sockets bound to the IPv4-mapped form of the address (::ffff:a.b.c.d, ::ffff:0.0.0.0): "
     "they reserve exactly what the IPv4 socket bound to a.b.c.d would", probes=["tcp_listeners_bound_to_a_mapped_ipv4_address"])
_add("C12", rule="two goroutines sending to one next hop at the same moment (two first lookups race); ARP requests relayed by a bridge; 15% of the runs "
     "switch spoofing on and send part of their datagrams from a socket bound to an address the interface does not own (resolved like any "
     "other send; on such an interface 'answers only for its own addresses' is not judged)",
     probes=["two_sends_to_one_next_hop_at_the_same_moment", "arp_requests_through_a_relay", "sends_from_a_spoofed_source"])


PENDING = "check not built yet (work in progress; will be claimed once its simulation exists)"
NOT_APPLICABLE = {
    "C15": "pure functions of their input (header codecs, RFC 1071 checksum): no schedule, clock, fault, I/O or second party for a simulator to control; "
           "deciding it is property-based/exhaustive testing, outside this technique family (DESIGN.md section 7)",
    "C16": "a sequential data structure driven by one caller; an operation-by-operation comparison with a []byte model is property-based testing, "
           "not simulation (DESIGN.md section 7)",
}
for _i in range(1, 21):
    NOT_APPLICABLE.setdefault("C%02d" % _i, PENDING)

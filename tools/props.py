"""Per-property configuration of the runner: engine, budgets, evidence texts."""

PRIM_REAL = ["pkg/tmutex", "pkg/waiter", "pkg/ilist", "pkg/sleep (sleep_unsafe.go, Go commitSleep)", "protocol/ports",
             "protocol/network/fragmentation"]
PRIM_STUBS = ["goroutine scheduling: one task released per step by the simulator at verif schedule points",
              "runtime.gopark/goready + commit_amd64.s of pkg/sleep: replaced by the channel parker of the verif hook",
              "time-slice pre-emption and same-instant timer order: runtime overlay"]
PRIM_ASSUME = ["interleavings are explored at the granularity of the verif schedule points (before each atomic/channel/lock operation); "
               "pre-emption between two plain memory accesses with no schedule point between them is not explored",
               "a clean batch is evidence, not proof"]

PROPS = {
    "C18": dict(
        engine="primsim", level="exploration",
        quick=dict(runs=64000, workers=16),
        thorough=dict(budget_s=600, workers=16),
        rule="one evaluation = one seeded schedule (uniform random or PCT priorities) of 2-4 tasks running random Lock/TryLock/Unlock scripts on one "
             "tmutex.Mutex with schedule points before every atomic/channel operation; non-trivial = at least one Lock entered the contended slow path; "
             "distinct = distinct hash of the (task, schedule point) sequence plus acquisition history",
        expected_probes=["lock_slow_path_sleep", "unlock_found_waiters"],
        real=["pkg/tmutex (all of tmutex.go)"], stubs=PRIM_STUBS, assumptions=PRIM_ASSUME,
        hang_is_violation=True,
        level_text="seeded exploration of interleavings of the shipped tmutex code at the granularity of its atomic and channel operations "
                   "(uniform random and PCT schedulers), with occupancy, TryLock and lost-wake-up oracles; evidence, not proof",
        level_note="trusts the Go runtime, testing/synctest quiescence detection and the two-line runtime overlay; schedule points sit before each atomic/channel "
                   "operation of tmutex.go (verif hook), so the load and the swap inside one expression of Lock's slow path are not separated",
    ),
}

PENDING = "check not built yet (work in progress; will be claimed once its simulation exists)"
NOT_APPLICABLE = {
    "C15": "pure functions of their input (header codecs, RFC 1071 checksum): no schedule, clock, fault, I/O or second party for a simulator to control; "
           "deciding it is property-based/exhaustive testing, outside this technique family (DESIGN.md section 7)",
    "C16": "a sequential data structure driven by one caller; an operation-by-operation comparison with a []byte model is property-based testing, "
           "not simulation (DESIGN.md section 7)",
}
for _i in range(1, 21):
    NOT_APPLICABLE.setdefault("C%02d" % _i, PENDING)

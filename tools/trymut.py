#!/usr/bin/env python3
"""Apply an ad-hoc textual mutation to /repo, run a check, restore /repo.
usage: trymut.py <prop> <file> <old> <new> [--tier quick]"""
import subprocess, sys
prop, path, old, new = sys.argv[1:5]
extra = sys.argv[5:]
p = '/repo/' + path
s = open(p).read()
assert s.count(old) == 1, "pattern count %d" % s.count(old)
open(p, 'w').write(s.replace(old, new))
try:
    r = subprocess.run(['/verif/check', prop] + extra, cwd='/verif', capture_output=True, text=True)
    print(r.stdout[-1500:])
    print(r.stderr[-500:])
    print('exit', r.returncode)
finally:
    subprocess.run(['git', '-C', '/repo', 'checkout', '--', path])

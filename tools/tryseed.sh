#!/bin/bash
# tryseed.sh <prop> <patch.diff> [extra check args]: apply a seeded change to /repo, run the check, undo.
prop=$1; patch=$2; shift 2
cd /repo || exit 2
git apply --check "$patch" || { echo "patch does not apply"; exit 2; }
git apply "$patch"
( cd /verif && timeout 3000 ./check "$prop" "$@" </dev/null 2>&1 | cut -c1-260 | grep -v "^VIOLATION" | head -8; echo "exit=${PIPESTATUS[0]}" )
git -C /repo checkout -- . ; git -C /repo status --short | head -3
find /verif/replays -type f -delete 2>/dev/null

#!/bin/bash
# tryseed.sh <prop> <patch.diff> [extra check args]: apply a seeded change to /repo, run the check, undo.
# The patch is taken off again as soon as the check has built its engines (VERIF_AFTER_BUILD), so that /repo is
# changed for a few seconds only; the script waits for other builds to finish before it applies the patch.
prop=$1; patch=$2; shift 2
cd /repo || exit 2
git apply --check "$patch" || { echo "patch does not apply"; exit 2; }
while pgrep -x "go1.26.8|go|compile|link|autoyield|asm" >/dev/null; do sleep 0.5; done
touch /tmp/repo-patched.lock
git apply "$patch"
( cd /verif && VERIF_AFTER_BUILD="git -C /repo checkout -- . ; rm -f /tmp/repo-patched.lock" timeout 3000 ./check "$prop" "$@" </dev/null 2>&1 | cut -c1-260 | grep -v "^VIOLATION" | head -8; echo "exit=${PIPESTATUS[0]}" )
git -C /repo checkout -- . ; rm -f /tmp/repo-patched.lock; git -C /repo status --short | head -3

#!/usr/bin/env python3
"""storeseed.py <seed-id> <worktree> <k> <pkg> <needs> <check_result> [missed_first]: copy a confirmed seeded change into /verif/seeded/<seed-id>/."""
import sys, os, shutil, json, glob
sid, wt, k, pkg, needs, result = sys.argv[1:7]
missed = sys.argv[7] if len(sys.argv) > 7 else ""
d = f"/verif/seeded/{sid}"
os.makedirs(d, exist_ok=True)
for f in glob.glob(f"{wt}/_seed/{k}/*"):
    if os.path.isfile(f):
        shutil.copy(f, d)
prop = sid.split("-")[0]
meta = {
 "id": sid, "property": prop,
 "origin": "sub-agent given only the property text and a scratch worktree",
 "needs_to_manifest": needs,
 "demonstration_package": pkg,
 "confirmed": f"tools/confirm_seed.sh: demonstration (go1.26.8 test -tags verif ./{pkg}) passes on the clean tree, fails with patch.diff applied; the 7-package default-toolchain suite passes with the patch",
 "check_result": result,
 "ran": f"tools/tryseed.sh {prop} seeded/{sid}/patch.diff (quick tier)",
}
if missed:
    meta["missed_before_strengthening"] = missed
json.dump(meta, open(f"{d}/meta.json", "w"), indent=1)
print("stored", d, os.listdir(d))

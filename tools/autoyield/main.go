// Command autoyield writes instrumented copies of the repository's Go files in
// which a schedule point (verifhook.Do) precedes every statement that performs
// a synchronisation operation, and prints a go build overlay that maps the
// originals to the copies. Nothing under the repository is written.
//
// The insertion is textual, on the statement's own line, so line numbers (and
// with them panic traces and coverage positions) are those of the original.
// A schedule point is a call through a nil-checked function variable: it lets
// the simulator switch goroutines there and does nothing else.
//
// usage: autoyield <repo root> <output dir> <package dir>...
package main

import (
	"encoding/json"
	"fmt"
	"go/ast"
	"go/parser"
	"go/token"
	"os"
	"path/filepath"
	"sort"
	"strings"
)

const hookPath = "github.com/brewlin/net-protocol/pkg/verifhook"
const alias = "vhAuto"

// calls by selector name that synchronise (mutexes, condition variables, the
// repository's sleeper/waker and wait queues)
var syncSel = map[string]bool{
	"Lock": true, "RLock": true, "Unlock": true, "RUnlock": true, "TryLock": true,
	"Wait": true, "Signal": true, "Broadcast": true,
	"Assert": true, "Clear": true, "Fetch": true, "Notify": true,
	"EventRegister": true, "EventUnregister": true,
}

type edit struct {
	off  int
	text string
}

func interesting(n ast.Node, atomicNames map[string]bool) bool {
	found := false
	ast.Inspect(n, func(x ast.Node) bool {
		if found || x == nil {
			return false
		}
		switch v := x.(type) {
		case *ast.FuncLit:
			return false // its body is a statement list of its own
		case *ast.BlockStmt:
			return false
		case *ast.SendStmt:
			found = true
		case *ast.UnaryExpr:
			if v.Op == token.ARROW {
				found = true
			}
		case *ast.CallExpr:
			switch f := v.Fun.(type) {
			case *ast.SelectorExpr:
				if id, ok := f.X.(*ast.Ident); ok && atomicNames[id.Name] {
					found = true
				} else if syncSel[f.Sel.Name] {
					found = true
				}
			case *ast.Ident:
				if f.Name == "close" {
					found = true
				}
			}
		}
		return !found
	})
	return found
}

// header returns the parts of a statement that execute before any nested block.
func header(s ast.Stmt) []ast.Node {
	switch v := s.(type) {
	case *ast.IfStmt:
		var r []ast.Node
		if v.Init != nil {
			r = append(r, v.Init)
		}
		return append(r, v.Cond)
	case *ast.SwitchStmt:
		var r []ast.Node
		if v.Init != nil {
			r = append(r, v.Init)
		}
		if v.Tag != nil {
			r = append(r, v.Tag)
		}
		return r
	case *ast.TypeSwitchStmt:
		return nil
	case *ast.ForStmt, *ast.RangeStmt, *ast.BlockStmt, *ast.DeferStmt, *ast.DeclStmt, *ast.EmptyStmt, *ast.BranchStmt:
		return nil
	case *ast.LabeledStmt:
		return header(v.Stmt)
	case *ast.SelectStmt, *ast.GoStmt:
		return []ast.Node{s} // always a schedule point
	default:
		return []ast.Node{s}
	}
}

func instrument(fset *token.FileSet, f *ast.File, rel string) []edit {
	atomicNames := map[string]bool{}
	for _, im := range f.Imports {
		p := strings.Trim(im.Path.Value, `"`)
		if p == "sync/atomic" {
			n := "atomic"
			if im.Name != nil {
				n = im.Name.Name
			}
			atomicNames[n] = true
		}
	}
	var edits []edit
	visit := func(list []ast.Stmt) {
		for _, s := range list {
			hit := false
			switch s.(type) {
			case *ast.CaseClause, *ast.CommClause:
				continue // (the bodies of switch and select statements list their clauses)
			case *ast.SelectStmt, *ast.GoStmt:
				hit = true
			default:
				for _, h := range header(s) {
					if interesting(h, atomicNames) {
						hit = true
					}
				}
			}
			if !hit {
				continue
			}
			pos := fset.Position(s.Pos())
			edits = append(edits, edit{pos.Offset, fmt.Sprintf("%s.Do(%q); ", alias, fmt.Sprintf("a:%s:%d", rel, pos.Line))})
		}
	}
	ast.Inspect(f, func(x ast.Node) bool {
		switch v := x.(type) {
		case *ast.BlockStmt:
			visit(v.List)
		case *ast.CaseClause:
			visit(v.Body)
		case *ast.CommClause:
			visit(v.Body)
		}
		return true
	})
	return edits
}

func main() {
	if len(os.Args) < 4 {
		fmt.Fprintln(os.Stderr, "usage: autoyield <repo root> <output dir> <package dir>...")
		os.Exit(2)
	}
	root, out := os.Args[1], os.Args[2]
	replace := map[string]string{}
	sites := 0
	for _, dir := range os.Args[3:] {
		ents, err := os.ReadDir(filepath.Join(root, dir))
		if err != nil {
			fmt.Fprintln(os.Stderr, "autoyield:", err)
			os.Exit(2)
		}
		for _, e := range ents {
			name := e.Name()
			if e.IsDir() || !strings.HasSuffix(name, ".go") || strings.HasSuffix(name, "_test.go") || strings.HasSuffix(name, "_verif.go") || strings.HasPrefix(name, "hook_") {
				continue
			}
			path := filepath.Join(root, dir, name)
			src, err := os.ReadFile(path)
			if err != nil {
				fmt.Fprintln(os.Stderr, "autoyield:", err)
				os.Exit(2)
			}
			fset := token.NewFileSet()
			f, err := parser.ParseFile(fset, path, src, parser.SkipObjectResolution)
			if err != nil {
				// a file that does not parse is left alone: the compiler will say why
				continue
			}
			rel := filepath.Join(dir, name)
			edits := instrument(fset, f, rel)
			if len(edits) == 0 {
				continue
			}
			sites += len(edits)
			// the import goes on the line of the package clause
			pkgEnd := fset.Position(f.Name.End()).Offset
			edits = append(edits, edit{pkgEnd, fmt.Sprintf("; import %s %q", alias, hookPath)})
			sort.SliceStable(edits, func(i, j int) bool { return edits[i].off < edits[j].off })
			var b strings.Builder
			last := 0
			for _, ed := range edits {
				b.Write(src[last:ed.off])
				b.WriteString(ed.text)
				last = ed.off
			}
			b.Write(src[last:])
			dst := filepath.Join(out, strings.ReplaceAll(rel, string(filepath.Separator), "__"))
			if err := os.WriteFile(dst, []byte(b.String()), 0o644); err != nil {
				fmt.Fprintln(os.Stderr, "autoyield:", err)
				os.Exit(2)
			}
			replace[path] = dst
		}
	}
	json.NewEncoder(os.Stdout).Encode(map[string]interface{}{"Replace": replace, "sites": sites})
}

#!/usr/bin/env python3
"""Print the sub-agent brief for a seeded breakage of one property (property text only)."""
import json, sys
pid = sys.argv[1]
wt = "/tmp/wt-" + pid
for l in open('/verif/properties.jsonl'):
    p = json.loads(l)
    if p['id'] == pid:
        break
print(f"""You are helping to evaluate a verification tool by writing *seeded defects* for a Go code base. Work ONLY inside the git worktree {wt} (a checkout of brewlin/net-protocol, a userspace TCP/IP stack in Go derived from gVisor netstack). Do not read or write anything under /repo or /verif, and do not look for other people's tests or tools outside {wt}.

PROPERTY that the code currently satisfies (id {pid}: {p['title']}):
  {p['statement']}
  Quantified: {p['quantifier']['text']}
  Code it is anchored in: {', '.join(p['anchors']['files'])}

YOUR TASK: make a change to the library source in {wt} that BREAKS this property while (a) everything still compiles and (b) the existing test suite still passes. Prefer a change that looks like a plausible maintenance edit or optimisation, and that needs something SPECIFIC to manifest - a particular interleaving of goroutines, a fault or loss at a particular point, a multi-step sequence of operations, an unusual input or boundary value, or two cooperating sites that each look fine alone - NOT a change that ordinary use would expose at once (not "always return an error", not a crash on first use). If you can, produce TWO independent such changes (different mechanisms); one good one is better than two weak ones.

DELIVERABLES, for each change k = 1, 2, in directory {wt}/_seed/k/ :
  - patch.diff : `git diff` of the library source change only (must apply with `git apply` to a clean checkout of this worktree's HEAD; do not include the demonstration in it).
  - a demonstration: a Go test file (or small program) plus the exact command to run it, that FAILS (or hangs, with a timeout, or shows the wrong behaviour clearly) WITH the change and PASSES WITHOUT it. Keep a copy of the demo file inside _seed/k/ and say where it has to be placed to run.
  - notes.md : what the change is, why the property is violated, and precisely what it needs in order to manifest (which interleaving / sequence / input).
Verify both directions yourself (with change: demo fails, existing tests pass; without change: demo passes), then leave the worktree source CLEAN (git checkout -- . ; only _seed/ remains, untracked).

FACTS ABOUT THE ENVIRONMENT:
  - No network. Prefix every shell command with: export GOFLAGS=-mod=mod GOPROXY=off GOSUMDB=off GOTOOLCHAIN=local
  - Default toolchain `go` is 1.23.5; a newer one is available as `go1.26.8`.
  - With the default toolchain only these packages build and have tests (this is "the existing test suite", it must still pass):
      go test -vet=off -count=1 ./pkg/buffer ./pkg/tmutex ./pkg/waiter ./protocol/header ./protocol/network/fragmentation ./protocol/ports ./protocol/transport/tcpconntrack
    Every package that imports pkg/sleep (stack, tcp, udp, ipv4, ipv6, arp, link/*, application/*) fails to assemble with it. Those packages DO build and their own (dormant) tests run with:  go1.26.8 test -tags verif ./<pkg>   (the build tag `verif` swaps pkg/sleep's assembly for Go). Use that for demonstrations that need the stack; e.g. protocol/transport/tcp/testing/context has a test harness for TCP, stack/ and protocol/transport/udp have tests you can imitate. Tests there take real time (timers), keep demos short.
  - Lines that call verifYield(...), verifLock(...), verifPark/verifReady, verifhook.* or live in *_verif.go / hook_*.go files are instrumentation. Leave them exactly as they are (do not delete, move or edit them): your patch must apply on top of them. Under `-tags verif` you MAY use the hook `verifhook.Yield` (package pkg/verifhook, a `func(site string)` called at those points) in your demonstration to force an interleaving deterministically, e.g. by blocking one goroutine at a named site until another has passed a point.
  - Do not weaken or edit existing tests.

When done, reply with a short summary: for each change, one paragraph (what, why it breaks the property, what it needs to manifest) and the exact demo command with its observed results in both directions.""")

#!/bin/bash
# confirm_seed.sh <worktree> <k> <pkg dir> <test regex> <go|go1.26.8> [tags]
# Confirms a sub-agent's seeded change: demo passes on clean tree, fails with the patch, existing suite passes with the patch.
wt=$1; k=$2; pkg=$3; re=$4; gobin=$5; tags=$6
export GOFLAGS=-mod=mod GOPROXY=off GOSUMDB=off GOTOOLCHAIN=local
cd $wt || exit 2
git checkout -q -- . ; git clean -fdq -e _seed
cp _seed/$k/*_test.go $pkg/ 2>/dev/null
tagarg=""; [ -n "$tags" ] && tagarg="-tags $tags"
$gobin test -vet=off -count=1 $tagarg -timeout 120s -run "$re" ./$pkg > /tmp/cs_clean.txt 2>&1; c=$?
git apply _seed/$k/patch.diff || { echo "APPLY FAILED"; exit 2; }
$gobin test -vet=off -count=1 $tagarg -timeout 120s -run "$re" ./$pkg > /tmp/cs_mut.txt 2>&1; m=$?
rm -f $pkg/seed*_test.go $pkg/c06_seed*_test.go $pkg/c06_seed*_test.go $pkg/c06_seed*_test.go
go test -vet=off -count=1 ./pkg/buffer ./pkg/tmutex ./pkg/waiter ./protocol/header ./protocol/network/fragmentation ./protocol/ports ./protocol/transport/tcpconntrack > /tmp/cs_suite.txt 2>&1; s=$?
git checkout -q -- . ; git clean -fdq -e _seed
echo "clean_demo_exit=$c mutated_demo_exit=$m suite_with_patch_exit=$s"
grep -h -m2 -E "^--- FAIL|^FAIL|panic" /tmp/cs_mut.txt | head -3

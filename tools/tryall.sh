#!/bin/bash
# tryall.sh [ids...]: run the quick tier of each seeded change's property against the change; writes seeded/RESULTS.txt
cd /verif
out=seeded/RESULTS.txt
: > $out.tmp
for d in ${@:-$(ls -d seeded/C*)}; do
  id=$(basename $d); prop=${id%%-*}
  res=$(tools/tryseed.sh $prop /verif/$d/patch.diff 2>&1 | grep -E "^exit=|^violation class=" | head -2 | tr '\n' ' ' | cut -c1-200)
  echo "$id $res" >> $out.tmp
done
mv $out.tmp $out
git -C /repo status --short | head -3

#!/usr/bin/env python3
"""autoconfirm.py <worktree> <k>: find the demo test of seed k, work out its package directory and test names, run tools/confirm_seed.sh."""
import sys, re, glob, os, subprocess
wt, k = sys.argv[1], sys.argv[2]
PK = {"tcp": "protocol/transport/tcp", "tcp_test": "protocol/transport/tcp", "udp": "protocol/transport/udp", "udp_test": "protocol/transport/udp",
      "stack": "stack", "stack_test": "stack", "ipv4": "protocol/network/ipv4", "ipv4_test": "protocol/network/ipv4", "ipv6": "protocol/network/ipv6",
      "ipv6_test": "protocol/network/ipv6", "fragmentation": "protocol/network/fragmentation", "waiter": "pkg/waiter", "waiter_test": "pkg/waiter",
      "sleep": "pkg/sleep", "tmutex": "pkg/tmutex", "ports": "protocol/ports", "http": "protocol/application/http", "websocket": "protocol/application/websocket",
      "fdbased": "protocol/link/fdbased", "arp": "protocol/network/arp", "arp_test": "protocol/network/arp", "header": "protocol/header", "header_test": "protocol/header",
      "seqnum": "pkg/seqnum", "buffer": "pkg/buffer", "hash": "protocol/network/hash"}
files = sorted(glob.glob(f"{wt}/_seed/{k}/*_test.go"))
if not files:
    sys.exit("no demo test file in " + f"{wt}/_seed/{k}")
bydir = {}
for f in files:
    src = open(f).read()
    m = re.search(r"^package (\w+)", src, re.M)
    d = PK.get(m.group(1)) if m else None
    # the notes may say where it goes
    notes = ""
    try:
        notes = open(f"{wt}/_seed/{k}/notes.md").read()
    except OSError:
        pass
    m2 = re.search(re.escape(os.path.basename(f)) + r"`?\s+(?:to|into)\s+`?([\w/]+)/?`?", notes)
    if m2 and os.path.isdir(os.path.join(wt, m2.group(1).rstrip("/"))):
        d = m2.group(1).rstrip("/")
    if d is None:
        sys.exit("cannot place " + f)
    bydir.setdefault(d, []).extend(re.findall(r"^func (Test\w+)\(", src, re.M))
# one directory per confirm run (confirm_seed copies every *_test.go of the seed dir: keep only this dir's files there)
if len(bydir) > 1:
    print("note: demo files for several packages:", list(bydir), "- confirming the first only")
d, tests = next(iter(bydir.items()))
rx = "^(" + "|".join(tests) + ")$"
print("package dir:", d, " tests:", tests)
sys.exit(subprocess.call(["/verif/tools/confirm_seed.sh", wt, k, d, rx, "go1.26.8", "verif"]))

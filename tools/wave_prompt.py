#!/usr/bin/env python3
"""wave_prompt.py <prop>: the sub-agent brief of agent_prompt.py plus the list of mechanisms already taken (from seeded/*/meta.json)."""
import json, sys, glob, subprocess
pid = sys.argv[1]
base = subprocess.check_output([sys.executable, "/verif/tools/agent_prompt.py", pid], text=True)
taken = []
for f in sorted(glob.glob(f"/verif/seeded/{pid}-*/meta.json")):
    d = json.load(open(f))
    taken.append("  - " + d["needs_to_manifest"])
print(base)
print(f"""
ADDITIONAL INSTRUCTIONS FOR THIS ROUND:
  - Produce up to THREE changes (directories _seed/1, _seed/2, _seed/3); different mechanisms, different code sites where possible.
  - Never use `git stash` (other worktrees of the same repository share the stash); undo with `git checkout -- .` and keep your patches as files.
  - Earlier rounds already produced changes that need the following to manifest. Do NOT repeat these mechanisms or near variants of them; look for parts of the property, code paths, configurations, option combinations, address families, boundary values, orders of operations and fault points that this list does not touch:
""" + "\n".join(taken) + """
  - Think about which clause of the property each earlier change attacks, and prefer clauses, code paths and conditions none of them touches (look at every file the property is anchored in, and at callers/callees one step away).
  - If, while reading, you notice that the UNCHANGED code already violates the property for some input or schedule, say so at the end of your reply under the heading OBSERVATIONS ON HEAD (with the concrete sequence), separately from your seeded changes.""")

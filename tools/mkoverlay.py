#!/usr/bin/env python3
"""Generate the go1.26.8 runtime source overlay used by every check.

Two exact one-line substitutions (each asserted to match exactly once) plus one
new file, written under /verif/.build/overlay; nothing is written to the
toolchain. See DESIGN.md section 3.1 and Appendix A.1.
"""
import json, os, subprocess, sys

here = os.path.dirname(os.path.dirname(os.path.abspath(__file__)))
out = os.path.join(here, ".build", "overlay")
os.makedirs(out, exist_ok=True)
env = dict(os.environ, GOTOOLCHAIN="local")
goroot = subprocess.check_output(["go1.26.8", "env", "GOROOT"], env=env, text=True).strip()
ver = subprocess.check_output(["go1.26.8", "version"], env=env, text=True)
if "go1.26.8" not in ver:
    sys.exit("mkoverlay: need go1.26.8, got " + ver)

def sub(rel, old, new):
    src = open(os.path.join(goroot, "src", rel)).read()
    if src.count(old) != 1:
        sys.exit("mkoverlay: %s: expected exactly one match of %r, found %d" % (rel, old, src.count(old)))
    dst = os.path.join(out, rel.replace("/", "_"))
    open(dst, "w").write(src.replace(old, new))
    return os.path.join(goroot, "src", rel), dst

repl = {}
a, b = sub("runtime/time.go", "\t\t\tt.rand = cheaprand()\n", "\t\t\tt.rand = verifTimerRand()\n")
repl[a] = b
# proc.go carries two substitutions: no time-slice pre-emption, and no periodic
# look at the global run queue (its period is counted in a per-P tick that
# survives from run to run, so a goroutine that called Gosched would overtake
# the local queue at history-dependent moments)
src = open(os.path.join(goroot, "src", "runtime/proc.go")).read()
for old, new in (
    ("\t\t} else if pd.schedwhen+forcePreemptNS <= now {\n",
     "\t\t} else if pd.schedwhen+forcePreemptNS <= now && verifSimState == 0 {\n"),
    ("\tif pp.schedtick%61 == 0 && !sched.runq.empty() {\n",
     "\tif pp.schedtick%61 == 0 && !sched.runq.empty() && verifSimState == 0 {\n"),
):
    if src.count(old) != 1:
        sys.exit("mkoverlay: runtime/proc.go: expected exactly one match of %r, found %d" % (old, src.count(old)))
    src = src.replace(old, new)
# sync.Mutex switches to starvation mode when a waiter has waited for more than 1 ms of REAL time
# (internal/sync reads the monotonic clock through this function): under a simulator that is a
# wall-clock dependence of who gets a contended lock next. In simulation the clock it sees stands
# still, so the mutex stays in normal mode (woken waiters still queue in front).
a, b = sub("runtime/sema.go", "func internal_sync_nanotime() int64 {\n\treturn nanotime()\n",
           "func internal_sync_nanotime() int64 {\n\tif verifSimState != 0 {\n\t\treturn 1\n\t}\n\treturn nanotime()\n")
repl[a] = b
# map iteration order (and the hash seed of maps created during a run) and the choice among several ready
# cases of a select statement are drawn from per-thread random state: in simulation they come from a seeded
# stream of their own (reseeded per run, separate from the timer stream)
a, b = sub("runtime/rand.go", "func maps_rand() uint64 {\n\treturn rand()\n",
           "func maps_rand() uint64 {\n\tif verifSimState != 0 {\n\t\treturn verifOrderRand()\n\t}\n\treturn rand()\n")
repl[a] = b
a, b = sub("runtime/select.go", "\t\tj := cheaprandn(uint32(norder + 1))\n",
           "\t\tj := cheaprandn(uint32(norder + 1))\n\t\tif verifSimState != 0 {\n\t\t\tj = uint32(verifOrderRand() % uint64(norder+1))\n\t\t}\n")
repl[a] = b
dst = os.path.join(out, "runtime_proc.go")
open(dst, "w").write(src)
repl[os.path.join(goroot, "src", "runtime/proc.go")] = dst
new = os.path.join(out, "runtime_verif_sim.go")
open(new, "w").write('''package runtime

import _ "unsafe"

// verifSimState is 0 for stock behaviour. When non-zero, same-instant timers
// are ordered by a splitmix64 stream instead of cheaprand, and sysmon does not
// time-slice pre-empt running goroutines.
var verifSimState uint64

// verifOrderState: the stream behind map iteration order and select's choice among ready cases.
var verifOrderState uint64

//go:linkname verifSimSeed
func verifSimSeed(s uint64) { verifSimState = s; verifOrderState = s ^ 0x6a09e667f3bcc909 }

func verifOrderRand() uint64 {
	verifOrderState += 0x9e3779b97f4a7c15
	z := verifOrderState
	z = (z ^ (z >> 30)) * 0xbf58476d1ce4e5b9
	z = (z ^ (z >> 27)) * 0x94d049bb133111eb
	return z ^ (z >> 31)
}

func verifTimerRand() uint32 {
	if verifSimState == 0 {
		return cheaprand()
	}
	verifSimState += 0x9e3779b97f4a7c15
	z := verifSimState
	z = (z ^ (z >> 30)) * 0xbf58476d1ce4e5b9
	z = (z ^ (z >> 27)) * 0x94d049bb133111eb
	if verifSimState == 0 {
		verifSimState = 1
	}
	return uint32((z ^ (z >> 31)) >> 32)
}

//go:linkname verifGoid
func verifGoid() uint64 { return getg().goid }
''')
repl[os.path.join(goroot, "src", "runtime", "verif_sim.go")] = new
json.dump({"Replace": repl}, open(os.path.join(here, ".build", "overlay.json"), "w"), indent=1)
print("overlay written to", out)
